// C02/C08 kernel + structure lemmas for the 32-bit pseudo-SIMD body distance (child module).
#![allow(missing_docs)]
#![allow(clippy::all)]
#![allow(unused_imports)]

use super::*;
use crate::verif::refmodel::*;

fn ref_sum_u32(x: u32, y: u32) -> u32 {
    let xb = x.to_le_bytes();
    let yb = y.to_le_bytes();
    ref_dist_body_byte(xb[0], yb[0])
        + ref_dist_body_byte(xb[1], yb[1])
        + ref_dist_body_byte(xb[2], yb[2])
        + ref_dist_body_byte(xb[3], yb[3])
}

//@ h=k_p32_kernel props=C02,C08,C07 cfgs=K0 tier=q t=300 | funcs: pseudo_simd_32::sub_distance | bound: all 2^64 pairs of 32-bit chunks: == sum of the 16 reference dibit distances; symmetric; <= 96; 0 iff equal
#[kani::proof]
#[kani::unwind(6)]
fn k_p32_kernel() {
    let x: u32 = kani::any();
    let y: u32 = kani::any();
    let d = sub_distance(x, y);
    assert!(d == ref_sum_u32(x, y));
    assert!(d <= 96);
    assert!(d == sub_distance(y, x));
    assert!((d == 0) == (x == y));
    kani::cover!(d == 96);
}

macro_rules! p32_struct {
    ($name:ident, $f:ident, $n:literal, $unw:literal) => {
        #[kani::proof]
        #[kani::unwind($unw)]
        fn $name() {
            let a: [u8; $n] = kani::any();
            let b: [u8; $n] = kani::any();
            let d = $f(&a, &b);
            let mut s = 0u32;
            let mut i = 0;
            while i < $n / 4 {
                let x = u32::from_le_bytes([a[4 * i], a[4 * i + 1], a[4 * i + 2], a[4 * i + 3]]);
                let y = u32::from_le_bytes([b[4 * i], b[4 * i + 1], b[4 * i + 2], b[4 * i + 3]]);
                s += sub_distance(x, y);
                i += 1;
            }
            assert!(d == s);
        }
    };
}
//@ h=k_p32_d12 props=C02,C07,C08 cfgs=K0 tier=q t=600 | funcs: pseudo_simd_32::distance_12 | bound: all pairs of 12-byte bodies: == sum of the real kernel over the three 4-byte chunks
p32_struct!(k_p32_d12, distance_12, 12, 6);
//@ h=k_p32_d32 props=C02,C07,C08 cfgs=K0 tier=q t=900 | funcs: pseudo_simd_32::distance_32 | bound: all pairs of 32-byte bodies: == sum of the real kernel over 8 chunks
p32_struct!(k_p32_d32, distance_32, 32, 12);
//@ h=k_p32_d64 props=C02,C07 cfgs=K0 tier=t t=1800 | funcs: pseudo_simd_32::distance_64 | bound: all pairs of 64-byte bodies: == sum of the real kernel over 16 chunks
p32_struct!(k_p32_d64, distance_64, 64, 20);

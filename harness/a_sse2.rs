// C07: SSE2 bucket aggregation (child module of bucket_aggregation::x86_sse2; K6 only).
#![allow(missing_docs)]
#![allow(clippy::all)]
#![allow(unused_imports)]
#![allow(unsafe_code)]

use super::*;
use crate::verif::refmodel::*;

/// Intel pseudo-code of PACKSSWB (stdarch's body uses simd_select, which Kani does not support).
fn stub_packs_epi16(a: __m128i, b: __m128i) -> __m128i {
    let a: [i16; 8] = unsafe { core::mem::transmute(a) };
    let b: [i16; 8] = unsafe { core::mem::transmute(b) };
    let mut r = [0i8; 16];
    let mut i = 0;
    while i < 8 {
        r[i] = if a[i] > 127 { 127 } else if a[i] < -128 { -128 } else { a[i] as i8 };
        r[i + 8] = if b[i] > 127 { 127 } else if b[i] < -128 { -128 } else { b[i] as i8 };
        i += 1;
    }
    unsafe { core::mem::transmute(r) }
}

//@ h=agg_sse2_kernel props=C01,C07,C17 cfgs=K6 tier=q t=900 | funcs: x86_sse2::sub_aggregation | bound: any 4 u32 counters x all q1<=q2<=q3: == packed reference dibits (unsigned compare via sign-bit flip) | stubs: _mm_packs_epi16 -> Intel pseudo-code (signed saturate i16->i8); _mm_undefined_si128 lanes are masked out by the code
#[kani::proof]
#[kani::unwind(10)]
#[kani::stub(core::arch::x86_64::_mm_packs_epi16, stub_packs_epi16)]
fn agg_sse2_kernel() {
    let b: [u32; 4] = kani::any();
    let (q1, q2, q3): (u32, u32, u32) = (kani::any(), kani::any(), kani::any());
    kani::assume(q1 <= q2 && q2 <= q3);
    let r = unsafe { sub_aggregation(&b, q1, q2, q3) };
    let e = ref_quartile(b[0], q1, q2, q3)
        | (ref_quartile(b[1], q1, q2, q3) << 2)
        | (ref_quartile(b[2], q1, q2, q3) << 4)
        | (ref_quartile(b[3], q1, q2, q3) << 6);
    assert!(r == e);
}

macro_rules! agg_struct {
    ($name:ident, $f:ident, $nb:literal, $sb:literal, $unw:literal) => {
        #[kani::proof]
        #[kani::unwind($unw)]
        #[kani::stub(core::arch::x86_64::_mm_packs_epi16, stub_packs_epi16)]
        fn $name() {
            let b: [u32; $nb] = kani::any();
            let (q1, q2, q3): (u32, u32, u32) = (kani::any(), kani::any(), kani::any());
            kani::assume(q1 <= q2 && q2 <= q3);
            let mut out: [u8; $sb] = kani::any();
            unsafe { $f(&mut out, &b, q1, q2, q3) };
            let k: usize = kani::any();
            kani::assume(k < $sb);
            let base = 4 * ($sb - 1 - k);
            assert!(out[k] == unsafe { sub_aggregation(&b[base..base + 4], q1, q2, q3) });
        }
    };
}
//@ h=agg_sse2_48 props=C01,C07,C17 cfgs=K6 tier=q t=900 | funcs: x86_sse2::aggregate_48 | bound: all inputs: byte k == real kernel on buckets 4(11-k).. | stubs: _mm_packs_epi16 pseudo-code
agg_struct!(agg_sse2_48, aggregate_48, 48, 12, 52);
//@ h=agg_sse2_128 props=C01,C07,C17 cfgs=K6 tier=t t=1800 | funcs: x86_sse2::aggregate_128 | bound: all inputs | stubs: _mm_packs_epi16 pseudo-code
agg_struct!(agg_sse2_128, aggregate_128, 128, 32, 132);
//@ h=agg_sse2_256 props=C01,C07,C17 cfgs=K6 tier=t t=2400 | funcs: x86_sse2::aggregate_256 | bound: all inputs | stubs: _mm_packs_epi16 pseudo-code
agg_struct!(agg_sse2_256, aggregate_256, 256, 64, 260);

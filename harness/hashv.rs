// Hash value lemmas through the public API: text form (C04, C05, C15), binary form and
// accessors (C06), caller's buffer (C14), string comparison helpers (C13).
#![allow(missing_docs)]
#![allow(clippy::all)]
#![allow(unused_imports)]
#![allow(unsafe_code)]
#![allow(dead_code)]

use crate::errors::{OperationError, ParseError, ParseErrorSide};
use crate::hash::body::FuzzyHashBody;
use crate::hash::checksum::FuzzyHashChecksum;
use crate::hash::HexStringPrefix;
use crate::hashes::{Long, LongWithLongChecksum, Normal, NormalWithLongChecksum, Short};
use crate::verif::refmodel::*;
use crate::FuzzyHashType;

/// Character `p` (0-based, after the optional prefix) of the reference text form of the binary
/// form `bytes`: header bytes (checksum, length, Q ratios) nibble-swapped, body bytes plain,
/// uppercase digits.
fn ref_text_char(bytes: &[u8], header: usize, p: usize) -> u8 {
    let b = bytes[p / 2];
    let first = p % 2 == 0;
    let hi = b >> 4;
    let lo = b & 15;
    let nib = if p / 2 < header {
        if first {
            lo
        } else {
            hi
        }
    } else if first {
        hi
    } else {
        lo
    };
    ref_hex_upper(nib)
}

/// The byte denoted by characters 2i, 2i+1 of the hex digits `s` (without prefix), if both are
/// hexadecimal digits of either case.
fn ref_decode_byte(s: &[u8], header: usize, i: usize) -> Option<u8> {
    let a = ref_hex_val(s[2 * i]);
    let b = ref_hex_val(s[2 * i + 1]);
    match (a, b) {
        (Some(a), Some(b)) => Some(if i < header { (b << 4) | a } else { (a << 4) | b }),
        _ => None,
    }
}

fn sym_prefix() -> HexStringPrefix {
    if kani::any() {
        HexStringPrefix::WithVersion
    } else {
        HexStringPrefix::Empty
    }
}

// ------------------------------------------------------------------ C04: round trip, canonical

// (the prefix mode is concrete per instance: a symbolic prefix turns `out = &mut out[2..]` into a
// pointer with symbolic offset and every later write into a byte-update at a symbolic position:
// >20 GB)
macro_rules! c04_fmt {
    ($name:ident, $ty:ty, $ck:literal, $n:literal, $l:literal, $with:literal, $unw:literal) => {
        #[kani::proof]
        #[kani::unwind($unw)]
        fn $name() {
            let bytes: [u8; $n] = kani::any();
            let h = <$ty>::try_from(&bytes).unwrap();
            assert!(<$ty>::LEN_IN_STR == $l && <$ty>::LEN_IN_STR_EXCEPT_PREFIX == $l - 2);
            assert!(<$ty>::SIZE_IN_BYTES == $n);
            let prefix = if $with { HexStringPrefix::WithVersion } else { HexStringPrefix::Empty };
            let off = if $with { 2 } else { 0 };
            let mut buf = [0u8; $l];
            let n = h.store_into_str_bytes(&mut buf, prefix).unwrap();
            assert!(n == $l - 2 + off);
            // canonical text: optional "T1", then uppercase digits of the reference form
            if $with {
                assert!(buf[0] == b'T' && buf[1] == b'1');
            }
            let k: usize = kani::any();
            kani::assume(k < $l - 2);
            let c = buf[off + k];
            assert!(c == ref_text_char(&bytes, $ck + 2, k));
            assert!((c >= b'0' && c <= b'9') || (c >= b'A' && c <= b'F'));
        }
    };
}

// the same harness with the external hex-simd crate replaced by its documented contract (K6)
#[cfg(feature = "opt-simd-convert-hex")]
macro_rules! c04_fmt_k6 {
    ($name:ident, $ty:ty, $ck:literal, $n:literal, $l:literal, $with:literal, $unw:literal) => {
        #[kani::proof]
        #[kani::unwind($unw)]
        #[kani::stub(crate::verif::hexsimd::hs_encode, crate::verif::hexsimd::stub_hex_encode)]
        #[kani::stub(crate::verif::hexsimd::hs_decode, crate::verif::hexsimd::stub_hex_decode)]
        fn $name() {
            let bytes: [u8; $n] = kani::any();
            let h = <$ty>::try_from(&bytes).unwrap();
            assert!(<$ty>::LEN_IN_STR == $l && <$ty>::LEN_IN_STR_EXCEPT_PREFIX == $l - 2);
            assert!(<$ty>::SIZE_IN_BYTES == $n);
            let prefix = if $with { HexStringPrefix::WithVersion } else { HexStringPrefix::Empty };
            let off = if $with { 2 } else { 0 };
            let mut buf = [0u8; $l];
            let n = h.store_into_str_bytes(&mut buf, prefix).unwrap();
            assert!(n == $l - 2 + off);
            // canonical text: optional "T1", then uppercase digits of the reference form
            if $with {
                assert!(buf[0] == b'T' && buf[1] == b'1');
            }
            let k: usize = kani::any();
            kani::assume(k < $l - 2);
            let c = buf[off + k];
            assert!(c == ref_text_char(&bytes, $ck + 2, k));
            assert!((c >= b'0' && c <= b'9') || (c >= b'A' && c <= b'F'));
        }
    };
}

// $with: text carries the "T1" prefix; $auto: parse with prefix auto-detection (None)
macro_rules! c04_rt {
    ($name:ident, $ty:ty, $n:literal, $l:literal, $with:literal, $auto:literal, $unw:literal) => {
        #[kani::proof]
        #[kani::unwind($unw)]
        fn $name() {
            let bytes: [u8; $n] = kani::any();
            let h = <$ty>::try_from(&bytes).unwrap();
            let prefix = if $with { HexStringPrefix::WithVersion } else { HexStringPrefix::Empty };
            let mut buf = [0u8; $l];
            h.store_into_str_bytes(&mut buf, prefix).unwrap();
            let s: &[u8] = if $with { &buf[..] } else { &buf[..$l - 2] };
            let h2 = <$ty>::from_str_bytes(s, if $auto { None } else { Some(prefix) }).unwrap();
            let mut out = [0u8; $n];
            h2.store_into_bytes(&mut out).unwrap();
            let j: usize = kani::any();
            kani::assume(j < $n);
            assert!(out[j] == bytes[j]);
        }
    };
}

// the same harness with the external hex-simd crate replaced by its documented contract (K6)
#[cfg(feature = "opt-simd-convert-hex")]
macro_rules! c04_rt_k6 {
    ($name:ident, $ty:ty, $n:literal, $l:literal, $with:literal, $auto:literal, $unw:literal) => {
        #[kani::proof]
        #[kani::unwind($unw)]
        #[kani::stub(crate::verif::hexsimd::hs_encode, crate::verif::hexsimd::stub_hex_encode)]
        #[kani::stub(crate::verif::hexsimd::hs_decode, crate::verif::hexsimd::stub_hex_decode)]
        fn $name() {
            let bytes: [u8; $n] = kani::any();
            let h = <$ty>::try_from(&bytes).unwrap();
            let prefix = if $with { HexStringPrefix::WithVersion } else { HexStringPrefix::Empty };
            let mut buf = [0u8; $l];
            h.store_into_str_bytes(&mut buf, prefix).unwrap();
            let s: &[u8] = if $with { &buf[..] } else { &buf[..$l - 2] };
            let h2 = <$ty>::from_str_bytes(s, if $auto { None } else { Some(prefix) }).unwrap();
            let mut out = [0u8; $n];
            h2.store_into_bytes(&mut out).unwrap();
            let j: usize = kani::any();
            kani::assume(j < $n);
            assert!(out[j] == bytes[j]);
        }
    };
}

macro_rules! c04_str {
    ($name:ident, $ty:ty, $ck:literal, $n:literal, $l:literal, $unw:literal) => {
        #[kani::proof]
        #[kani::unwind($unw)]
        fn $name() {
            use core::str::FromStr;
            let bytes: [u8; $n] = kani::any();
            let h = <$ty>::try_from(&bytes).unwrap();
            let mut buf = [0u8; $l];
            h.store_into_str_bytes(&mut buf, HexStringPrefix::WithVersion).unwrap();
            // every byte is ASCII (c04_rt_*), so this is a valid &str
            let with: bool = kani::any();
            let s = if with {
                unsafe { core::str::from_utf8_unchecked(&buf) }
            } else {
                unsafe { core::str::from_utf8_unchecked(&buf[2..]) }
            };
            assert!(<$ty>::from_str(s).unwrap() == h);
            assert!(<$ty>::from_str_with(s, None).unwrap() == h);
            let p = if with { HexStringPrefix::WithVersion } else { HexStringPrefix::Empty };
            assert!(<$ty>::from_str_with(s, Some(p)).unwrap() == h);
            assert!(str::parse::<$ty>(s).unwrap() == h);
        }
    };
}

/// A `core::fmt::Write` sink into a fixed buffer (no allocation).
struct Sink<const N: usize> {
    buf: [u8; N],
    n: usize,
    overflow: bool,
}
impl<const N: usize> core::fmt::Write for Sink<N> {
    fn write_str(&mut self, s: &str) -> core::fmt::Result {
        let b = s.as_bytes();
        let mut i = 0;
        while i < b.len() {
            if self.n < N {
                self.buf[self.n] = b[i];
                self.n += 1;
            } else {
                self.overflow = true;
            }
            i += 1;
        }
        Ok(())
    }
}

macro_rules! c04_display {
    ($name:ident, $ty:ty, $n:literal, $l:literal, $unw:literal) => {
        #[kani::proof]
        #[kani::unwind($unw)]
        #[kani::stub(core::str::from_utf8, crate::verif::refmodel::stub_from_utf8)]
        fn $name() {
            use core::fmt::Display;
            use core::fmt::Write;
            let bytes: [u8; $n] = kani::any();
            let h = <$ty>::try_from(&bytes).unwrap();
            let mut buf = [0u8; $l];
            h.store_into_str_bytes(&mut buf, HexStringPrefix::WithVersion).unwrap();
            let mut sink = Sink::<$l> { buf: [0; $l], n: 0, overflow: false };
            write!(sink, "{}", h).unwrap();
            assert!(sink.n == $l && !sink.overflow);
            let k: usize = kani::any();
            kani::assume(k < $l);
            assert!(sink.buf[k] == buf[k]);
        }
    };
}

macro_rules! c04_canon {
    ($name:ident, $ty:ty, $ck:literal, $n:literal, $l:literal, $unw:literal) => {
        #[kani::proof]
        #[kani::unwind($unw)]
        fn $name() {
            let s: [u8; $l] = kani::any();
            let with: bool = kani::any();
            let text: &[u8] = if with { &s[..] } else { &s[2..] };
            let r = <$ty>::from_str_bytes(text, None);
            if let Ok(h) = r {
                let mut buf = [0u8; $l];
                h.store_into_str_bytes(&mut buf, HexStringPrefix::WithVersion).unwrap();
                assert!(buf[0] == b'T' && buf[1] == b'1');
                let k: usize = kani::any();
                kani::assume(k < $l - 2);
                assert!(buf[2 + k] == ref_upper(s[2 + k]));
                if with {
                    assert!(s[0] == b'T' && s[1] == b'1');
                }
            }
            kani::cover!(r.is_ok() && with);
            kani::cover!(r.is_ok() && !with);
        }
    };
}

//@ h=c04_fmt_short_p props=C04,C06,C14,C07 cfgs=K0,K2,K3 tier=q t=600 | funcs: Short::{try_from(&[u8;15]), store_into_str_bytes(WithVersion)}, encode_rev_array/encode_rev_1/encode_array (full / half / min encode tables, one per configuration) | bound: all 2^120 values: exact length, "T1", every character == uppercase digit of the reference form (header nibble-swapped, body plain)
c04_fmt!(c04_fmt_short_p, Short, 1, 15, 32, true, 36);
//@ h=c04_fmt_short_e props=C04,C06,C14 cfgs=K1,K3 tier=q t=600 | funcs: Short::store_into_str_bytes(Empty) | bound: all values, no prefix
c04_fmt!(c04_fmt_short_e, Short, 1, 15, 32, false, 36);
//@ h=c04_fmt_normal_p props=C04,C06 cfgs=K1 tier=q t=900 | funcs: Normal::store_into_str_bytes(WithVersion) | bound: all 2^280 values
c04_fmt!(c04_fmt_normal_p, Normal, 1, 35, 72, true, 76);
//@ h=c04_fmt_normall_e props=C04,C06 cfgs=K1 tier=q t=900 | funcs: NormalWithLongChecksum::store_into_str_bytes(Empty) | bound: all values
c04_fmt!(c04_fmt_normall_e, NormalWithLongChecksum, 3, 37, 76, false, 80);
//@ h=c04_fmt_long_p props=C04,C06 cfgs=K1,K2 tier=q t=1200 | funcs: Long::store_into_str_bytes(WithVersion) | bound: all values
c04_fmt!(c04_fmt_long_p, Long, 1, 67, 136, true, 140);
//@ h=c04_fmt_longl_p props=C04,C06 cfgs=K1,K3 tier=q t=1200 | funcs: LongWithLongChecksum::store_into_str_bytes(WithVersion) | bound: all values
c04_fmt!(c04_fmt_longl_p, LongWithLongChecksum, 3, 69, 140, true, 144);
//@ h=c04_fmt_longl_e props=C04,C06 cfgs=K1 tier=t t=1200 | funcs: LongWithLongChecksum::store_into_str_bytes(Empty) | bound: all values
c04_fmt!(c04_fmt_longl_e, LongWithLongChecksum, 3, 69, 140, false, 144);

//@ h=c04_rt_short_pa props=C04,C07 cfgs=K0,K1,K3,K4,K5 tier=q t=900 | funcs: Short::{store_into_str_bytes(WithVersion), from_str_bytes(None), store_into_bytes} through every decode-table variant (one per configuration) | bound: all 2^120 values: parse(format(h)) == h
c04_rt!(c04_rt_short_pa, Short, 15, 32, true, true, 36);
//@ h=c04_rt_short_ee props=C04 cfgs=K1 tier=q t=900 | funcs: Short::{store_into_str_bytes(Empty), from_str_bytes(Some(Empty))} | bound: all values
c04_rt!(c04_rt_short_ee, Short, 15, 32, false, false, 36);
//@ h=c04_rt_short_ea props=C04 cfgs=K1 tier=t t=900 | funcs: Short::{store_into_str_bytes(Empty), from_str_bytes(None)} | bound: all values
c04_rt!(c04_rt_short_ea, Short, 15, 32, false, true, 36);
//@ h=c04_rt_short_pp props=C04 cfgs=K1 tier=t t=900 | funcs: Short::{store_into_str_bytes(WithVersion), from_str_bytes(Some(WithVersion))} | bound: all values
c04_rt!(c04_rt_short_pp, Short, 15, 32, true, false, 36);
//@ h=c04_rt_normal_pa props=C04 cfgs=K1 tier=q t=1200 | funcs: Normal text round trip (prefix, auto-detect) | bound: all 2^280 values
c04_rt!(c04_rt_normal_pa, Normal, 35, 72, true, true, 76);
//@ h=c04_rt_normal_ee props=C04 cfgs=K1,K3 tier=t t=1200 | funcs: Normal text round trip (no prefix) | bound: all values
c04_rt!(c04_rt_normal_ee, Normal, 35, 72, false, false, 76);
//@ h=c04_rt_normall_pa props=C04 cfgs=K1 tier=q t=1200 | funcs: NormalWithLongChecksum text round trip | bound: all values
c04_rt!(c04_rt_normall_pa, NormalWithLongChecksum, 37, 76, true, true, 80);
//@ h=c04_rt_long_ea props=C04 cfgs=K1 tier=q t=1800 | funcs: Long text round trip (no prefix, auto-detect) | bound: all values
c04_rt!(c04_rt_long_ea, Long, 67, 136, false, true, 140);
//@ h=c04_rt_longl_pa props=C04 cfgs=K1 tier=t t=2400 | funcs: LongWithLongChecksum text round trip | bound: all values
c04_rt!(c04_rt_longl_pa, LongWithLongChecksum, 69, 140, true, true, 144);

//@ h=c04_str_short props=C04 cfgs=K1 tier=q t=600 | funcs: Short::{from_str, from_str_with, str::parse} | bound: all values x prefix present/absent; &str built from the (proven ASCII) text
c04_str!(c04_str_short, Short, 1, 15, 32, 36);
//@ h=c04_str_normal props=C04 cfgs=K1 tier=t t=900 | funcs: Normal::{from_str, from_str_with, str::parse} | bound: all values x prefix present/absent
c04_str!(c04_str_normal, Normal, 1, 35, 72, 76);

//@ h=c04_display_short props=C04,C17 cfgs=K10 tier=q t=900 | funcs: <Short as Display>::fmt through core::fmt::write into a fixed sink (K10: from_utf8_unchecked arm) | bound: all values; to_string (allocation) covered only through this equality
c04_display!(c04_display_short, Short, 15, 32, 36);
//@ h=c04_display_short_safe props=C04 cfgs=K1 tier=q t=900 | funcs: <Short as Display>::fmt with the checked from_utf8 arm | bound: all values | stubs: core::str::from_utf8 -> contract (ASCII is valid UTF-8; non-ASCII fails the harness)
c04_display!(c04_display_short_safe, Short, 15, 32, 36);
//@ h=c04_display_normal props=C04 cfgs=K10 tier=t t=1200 | funcs: <Normal as Display>::fmt (from_utf8_unchecked arm) | bound: all values
c04_display!(c04_display_normal, Normal, 35, 72, 76);

//@ h=c04_canon_short props=C04,C07 cfgs=K1,K3,K4,K5 tier=q t=900 | funcs: Short::from_str_bytes(auto) then store_into_str_bytes | bound: all 2^256 candidate strings of both right lengths: accepted => re-format == "T1"+upper(digits)
c04_canon!(c04_canon_short, Short, 1, 15, 32, 36);
//@ h=c04_canon_normal props=C04 cfgs=K1 tier=q t=1200 | funcs: Normal::from_str_bytes(auto) then store_into_str_bytes | bound: all strings of both right lengths
c04_canon!(c04_canon_normal, Normal, 1, 35, 72, 76);
//@ h=c04_canon_longl props=C04 cfgs=K1 tier=t t=2400 | funcs: LongWithLongChecksum::from_str_bytes(auto) then store_into_str_bytes | bound: all strings of both right lengths
c04_canon!(c04_canon_longl, LongWithLongChecksum, 3, 69, 140, 144);

// ------------------------------------------------------------------ C05 / C15: parser exactness

/// mode: 0 = None (auto), 1 = Some(Empty), 2 = Some(WithVersion)
fn mode_of(m: u8) -> Option<HexStringPrefix> {
    match m {
        0 => None,
        1 => Some(HexStringPrefix::Empty),
        _ => Some(HexStringPrefix::WithVersion),
    }
}

macro_rules! c05_parse {
    ($name:ident, $ty:ty, $ck:literal, $n:literal, $l:literal, $len:literal, $unw:literal, $strict:literal) => {
        #[kani::proof]
        #[kani::unwind($unw)]
        fn $name() {
            let s: [u8; $len] = kani::any();
            let m: u8 = kani::any();
            kani::assume(m < 3);
            let r = <$ty>::from_str_bytes(&s, mode_of(m));
            let len_ok = match m {
                0 => $len == $l || $len == $l - 2,
                1 => $len == $l - 2,
                _ => $len == $l,
            };
            if !len_ok {
                assert!(r == Err(ParseError::InvalidStringLength));
            } else {
                let has_prefix = $len == $l;
                let off = if has_prefix { 2 } else { 0 };
                let prefix_ok = !has_prefix || (s[0] == b'T' && s[1] == b'1');
                let mut all_hex = true;
                let mut i = off;
                while i < $len {
                    if !ref_is_hex(s[i]) {
                        all_hex = false;
                    }
                    i += 1;
                }
                // strict extras: an error "applies" as soon as the digits of that field are
                // hexadecimal and denote an impossible value (later characters may be anything)
                let digits = &s[off..];
                let mut strict_ck_ok = true;
                let mut strict_len_ok = true;
                if $strict {
                    if $n == 15 {
                        if let Some(v) = ref_decode_byte(digits, $ck + 2, 0) {
                            strict_ck_ok = v <= 48;
                        }
                    }
                    if let Some(v) = ref_decode_byte(digits, $ck + 2, $ck) {
                        strict_len_ok = v < 170;
                    }
                }
                let wellformed = prefix_ok && all_hex && strict_ck_ok && strict_len_ok;
                match r {
                    Ok(h) => {
                        assert!(wellformed);
                        let mut out = [0u8; $n];
                        h.store_into_bytes(&mut out).unwrap();
                        let j: usize = kani::any();
                        kani::assume(j < $n);
                        assert!(Some(out[j]) == ref_decode_byte(digits, $ck + 2, j));
                    }
                    Err(e) => {
                        assert!(!wellformed);
                        assert!(e != ParseError::InvalidStringLength);
                        // the reported error is one that applies
                        match e {
                            ParseError::InvalidPrefix => assert!(!prefix_ok),
                            ParseError::InvalidCharacter => assert!(!all_hex),
                            ParseError::InvalidChecksum => assert!($strict && !strict_ck_ok),
                            ParseError::LengthIsTooLarge => assert!($strict && !strict_len_ok),
                            _ => assert!(false),
                        }
                        if $strict && prefix_ok && all_hex {
                            if strict_ck_ok {
                                assert!(e == ParseError::LengthIsTooLarge);
                            }
                            if strict_len_ok {
                                assert!(e == ParseError::InvalidChecksum);
                            }
                        }
                    }
                }
            }
            let never_ok = !($len == $l || $len == $l - 2);
            kani::cover!(r.is_ok() || never_ok);
            kani::cover!(r == Err(ParseError::InvalidCharacter) || never_ok);
            kani::cover!(r == Err(ParseError::InvalidStringLength));
        }
    };
}

// the same harness with the external hex-simd crate replaced by its documented contract (K6)
#[cfg(feature = "opt-simd-convert-hex")]
macro_rules! c05_parse_k6 {
    ($name:ident, $ty:ty, $ck:literal, $n:literal, $l:literal, $len:literal, $unw:literal, $strict:literal) => {
        #[kani::proof]
        #[kani::unwind($unw)]
        #[kani::stub(crate::verif::hexsimd::hs_encode, crate::verif::hexsimd::stub_hex_encode)]
        #[kani::stub(crate::verif::hexsimd::hs_decode, crate::verif::hexsimd::stub_hex_decode)]
        fn $name() {
            let s: [u8; $len] = kani::any();
            let m: u8 = kani::any();
            kani::assume(m < 3);
            let r = <$ty>::from_str_bytes(&s, mode_of(m));
            let len_ok = match m {
                0 => $len == $l || $len == $l - 2,
                1 => $len == $l - 2,
                _ => $len == $l,
            };
            if !len_ok {
                assert!(r == Err(ParseError::InvalidStringLength));
            } else {
                let has_prefix = $len == $l;
                let off = if has_prefix { 2 } else { 0 };
                let prefix_ok = !has_prefix || (s[0] == b'T' && s[1] == b'1');
                let mut all_hex = true;
                let mut i = off;
                while i < $len {
                    if !ref_is_hex(s[i]) {
                        all_hex = false;
                    }
                    i += 1;
                }
                // strict extras: an error "applies" as soon as the digits of that field are
                // hexadecimal and denote an impossible value (later characters may be anything)
                let digits = &s[off..];
                let mut strict_ck_ok = true;
                let mut strict_len_ok = true;
                if $strict {
                    if $n == 15 {
                        if let Some(v) = ref_decode_byte(digits, $ck + 2, 0) {
                            strict_ck_ok = v <= 48;
                        }
                    }
                    if let Some(v) = ref_decode_byte(digits, $ck + 2, $ck) {
                        strict_len_ok = v < 170;
                    }
                }
                let wellformed = prefix_ok && all_hex && strict_ck_ok && strict_len_ok;
                match r {
                    Ok(h) => {
                        assert!(wellformed);
                        let mut out = [0u8; $n];
                        h.store_into_bytes(&mut out).unwrap();
                        let j: usize = kani::any();
                        kani::assume(j < $n);
                        assert!(Some(out[j]) == ref_decode_byte(digits, $ck + 2, j));
                    }
                    Err(e) => {
                        assert!(!wellformed);
                        assert!(e != ParseError::InvalidStringLength);
                        // the reported error is one that applies
                        match e {
                            ParseError::InvalidPrefix => assert!(!prefix_ok),
                            ParseError::InvalidCharacter => assert!(!all_hex),
                            ParseError::InvalidChecksum => assert!($strict && !strict_ck_ok),
                            ParseError::LengthIsTooLarge => assert!($strict && !strict_len_ok),
                            _ => assert!(false),
                        }
                        if $strict && prefix_ok && all_hex {
                            if strict_ck_ok {
                                assert!(e == ParseError::LengthIsTooLarge);
                            }
                            if strict_len_ok {
                                assert!(e == ParseError::InvalidChecksum);
                            }
                        }
                    }
                }
            }
            let never_ok = !($len == $l || $len == $l - 2);
            kani::cover!(r.is_ok() || never_ok);
            kani::cover!(r == Err(ParseError::InvalidCharacter) || never_ok);
            kani::cover!(r == Err(ParseError::InvalidStringLength));
        }
    };
}

// lenient parser (all non-strict configurations select the same gates; table variants K0,K3,K4,K5)
//@ h=c05_short_30 props=C05,C07 cfgs=K0,K1,K3,K4,K5 tier=q t=900 | funcs: Short::from_str_bytes, decode_rev_array, decode_rev_1, decode_array, decode_1 | bound: ALL byte strings of length 30 (incl. non-UTF-8) x 3 prefix modes
c05_parse!(c05_short_30, Short, 1, 15, 32, 30, 36, false);
//@ h=c05_short_32 props=C05,C07,C17 cfgs=K0,K1,K3,K4,K5,K10 tier=q t=900 | funcs: Short::from_str_bytes | bound: ALL byte strings of length 32 x 3 prefix modes
c05_parse!(c05_short_32, Short, 1, 15, 32, 32, 36, false);
//@ h=c05_short_31 props=C05 cfgs=K1 tier=q t=300 | funcs: Short::from_str_bytes | bound: ALL byte strings of length 31 x 3 prefix modes
c05_parse!(c05_short_31, Short, 1, 15, 32, 31, 36, false);
//@ h=c05_short_0 props=C05,C17 cfgs=K1 tier=q t=300 | funcs: Short::from_str_bytes | bound: the empty string x 3 prefix modes
c05_parse!(c05_short_0, Short, 1, 15, 32, 0, 36, false);
//@ h=c05_short_33 props=C05 cfgs=K1 tier=q t=300 | funcs: Short::from_str_bytes | bound: ALL byte strings of length 33 x 3 prefix modes
c05_parse!(c05_short_33, Short, 1, 15, 32, 33, 36, false);
//@ h=c05_normal_70 props=C05 cfgs=K1,K3 tier=q t=1200 | funcs: Normal::from_str_bytes | bound: ALL byte strings of length 70 x 3 prefix modes
c05_parse!(c05_normal_70, Normal, 1, 35, 72, 70, 76, false);
//@ h=c05_normal_72 props=C05 cfgs=K1,K3 tier=q t=1200 | funcs: Normal::from_str_bytes | bound: ALL byte strings of length 72 x 3 prefix modes
c05_parse!(c05_normal_72, Normal, 1, 35, 72, 72, 76, false);
//@ h=c05_normall_76 props=C05 cfgs=K1 tier=q t=1200 | funcs: NormalWithLongChecksum::from_str_bytes | bound: ALL byte strings of length 76 x 3 prefix modes
c05_parse!(c05_normall_76, NormalWithLongChecksum, 3, 37, 76, 76, 80, false);
//@ h=c05_long_134 props=C05 cfgs=K1 tier=q t=1800 | funcs: Long::from_str_bytes | bound: ALL byte strings of length 134 x 3 prefix modes
c05_parse!(c05_long_134, Long, 1, 67, 136, 134, 140, false);
//@ h=c05_longl_140 props=C05 cfgs=K1 tier=t t=2400 | funcs: LongWithLongChecksum::from_str_bytes | bound: ALL byte strings of length 140 x 3 prefix modes
c05_parse!(c05_longl_140, LongWithLongChecksum, 3, 69, 140, 140, 144, false);
//@ h=c05_normal_71 props=C05 cfgs=K1 tier=t t=600 | funcs: Normal::from_str_bytes | bound: ALL byte strings of length 71 x 3 prefix modes
c05_parse!(c05_normal_71, Normal, 1, 35, 72, 71, 76, false);
//@ h=c05_normal_74 props=C05 cfgs=K1 tier=t t=600 | funcs: Normal::from_str_bytes | bound: ALL byte strings of length 74 x 3 prefix modes
c05_parse!(c05_normal_74, Normal, 1, 35, 72, 74, 76, false);


// every length at once (symbolic slice length), thorough tier
macro_rules! c05_symlen {
    ($name:ident, $ty:ty, $l:literal, $unw:literal) => {
        #[kani::proof]
        #[kani::unwind($unw)]
        fn $name() {
            let s: [u8; $l + 4] = kani::any();
            let len: usize = kani::any();
            kani::assume(len <= $l + 4);
            let m: u8 = kani::any();
            kani::assume(m < 3);
            let r = <$ty>::from_str_bytes(&s[..len], mode_of(m));
            let len_ok = match m {
                0 => len == $l || len == $l - 2,
                1 => len == $l - 2,
                _ => len == $l,
            };
            if !len_ok {
                assert!(r == Err(ParseError::InvalidStringLength));
            } else {
                assert!(r != Err(ParseError::InvalidStringLength));
            }
            kani::cover!(r.is_ok());
            kani::cover!(len == $l + 4);
            kani::cover!(len == 0);
        }
    };
}
//@ h=c05_symlen_short props=C05,C17 cfgs=K1 tier=q t=900 | funcs: Short::from_str_bytes | bound: ALL byte strings of EVERY length 0..=36 (symbolic length) x 3 prefix modes: InvalidStringLength iff the length is wrong for the mode; no panic
c05_symlen!(c05_symlen_short, Short, 32, 40);
//@ h=c05_symlen_normal props=C05 cfgs=K1 tier=t t=2400 | funcs: Normal::from_str_bytes | bound: all byte strings of every length 0..=76 x 3 prefix modes
c05_symlen!(c05_symlen_normal, Normal, 72, 80);

// strict parser
//@ h=c15_short_30 props=C15 cfgs=K7 tier=q t=900 | funcs: Short::from_str_bytes with feature strict-parser, FuzzyHashChecksum::is_valid, FuzzyHashLengthEncoding::is_valid | bound: ALL byte strings of length 30 x 3 prefix modes
c05_parse!(c15_short_30, Short, 1, 15, 32, 30, 36, true);
//@ h=c15_short_32 props=C15 cfgs=K7 tier=q t=900 | funcs: Short::from_str_bytes (strict) | bound: ALL byte strings of length 32 x 3 prefix modes
c05_parse!(c15_short_32, Short, 1, 15, 32, 32, 36, true);
//@ h=c15_normal_72 props=C15 cfgs=K7 tier=q t=1200 | funcs: Normal::from_str_bytes (strict) | bound: ALL byte strings of length 72 x 3 prefix modes
c05_parse!(c15_normal_72, Normal, 1, 35, 72, 72, 76, true);
//@ h=c15_normall_74 props=C15 cfgs=K7 tier=q t=1200 | funcs: NormalWithLongChecksum::from_str_bytes (strict) | bound: ALL byte strings of length 74 x 3 prefix modes
c05_parse!(c15_normall_74, NormalWithLongChecksum, 3, 37, 76, 74, 80, true);
//@ h=c15_long_136 props=C15 cfgs=K7 tier=t t=1800 | funcs: Long::from_str_bytes (strict) | bound: ALL byte strings of length 136 x 3 prefix modes
c05_parse!(c15_long_136, Long, 1, 67, 136, 136, 140, true);
//@ h=c15_short_31 props=C15 cfgs=K7 tier=q t=300 | funcs: Short::from_str_bytes (strict) | bound: ALL byte strings of length 31 x 3 prefix modes
c05_parse!(c15_short_31, Short, 1, 15, 32, 31, 36, true);

// from_str on &str: one-line wrapper; content restricted to ASCII (a &str must be UTF-8)
macro_rules! c05_fromstr {
    ($name:ident, $ty:ty, $l:literal, $unw:literal) => {
        #[kani::proof]
        #[kani::unwind($unw)]
        fn $name() {
            use core::str::FromStr;
            let s: [u8; $l] = kani::any();
            let mut i = 0;
            while i < $l {
                kani::assume(s[i] < 128);
                i += 1;
            }
            let with: bool = kani::any();
            let b: &[u8] = if with { &s[..] } else { &s[2..] };
            let t = unsafe { core::str::from_utf8_unchecked(b) };
            let a = <$ty>::from_str(t);
            let c = <$ty>::from_str_bytes(b, None);
            assert!(a == c);
            assert!(<$ty>::from_str_with(t, None) == c);
            kani::cover!(a.is_ok());
            kani::cover!(a.is_err());
        }
    };
}
//@ h=c05_fromstr_short props=C05,C13 cfgs=K1 tier=q t=900 | funcs: <Short as FromStr>::from_str, from_str_with | bound: all ASCII strings of length 30 and 32 | assume: bytes < 128 (a &str must be UTF-8)
c05_fromstr!(c05_fromstr_short, Short, 32, 36);

// ------------------------------------------------------------------ C06 / C15: binary form, accessors

macro_rules! c06_bin {
    ($name:ident, $ty:ty, $ck:literal, $nb:literal, $n:literal, $unw:literal, $strict:literal) => {
        #[kani::proof]
        #[kani::unwind($unw)]
        fn $name() {
            let bytes: [u8; $n] = kani::any();
            let r = <$ty>::try_from(&bytes);
            let r2 = <$ty>::try_from(&bytes[..]);
            assert!(r == r2);
            let ck_ok = !$strict || $nb != 48 || bytes[0] <= 48;
            let len_ok = !$strict || bytes[$ck] < 170;
            match r {
                Err(e) => {
                    assert!(!(ck_ok && len_ok));
                    if ck_ok {
                        assert!(e == ParseError::LengthIsTooLarge);
                    } else if len_ok {
                        assert!(e == ParseError::InvalidChecksum);
                    } else {
                        assert!(e == ParseError::InvalidChecksum || e == ParseError::LengthIsTooLarge);
                    }
                }
                Ok(h) => {
                    assert!(ck_ok && len_ok);
                    assert!(h.checksum().is_valid() == ($nb != 48 || bytes[0] <= 48));
                    assert!(h.length().is_valid() == (bytes[$ck] < 170));
                    let mut out = [0u8; $n];
                    assert!(h.store_into_bytes(&mut out) == Ok($n));
                    let j: usize = kani::any();
                    kani::assume(j < $n);
                    assert!(out[j] == bytes[j]);
                    // accessors describe the same parts
                    let c: usize = kani::any();
                    kani::assume(c < $ck);
                    assert!(h.checksum().data()[c] == bytes[c]);
                    assert!(h.length().value() == bytes[$ck]);
                    assert!(h.qratios().value() == bytes[$ck + 1]);
                    assert!(h.qratios().q1ratio() == bytes[$ck + 1] & 15);
                    assert!(h.qratios().q2ratio() == bytes[$ck + 1] >> 4);
                    let k: usize = kani::any();
                    kani::assume(k < $nb / 4);
                    assert!(h.body().data()[k] == bytes[$ck + 2 + k]);
                    let q: usize = kani::any();
                    kani::assume(q < $nb);
                    assert!(h.body().quartile(q) == (bytes[$n - 1 - q / 4] >> (2 * (q % 4))) & 3);
                    // value equality is byte equality
                    let other: [u8; $n] = kani::any();
                    if let Ok(o) = <$ty>::try_from(&other) {
                        let mut same = true;
                        let mut i = 0;
                        while i < $n {
                            if other[i] != bytes[i] {
                                same = false;
                            }
                            i += 1;
                        }
                        assert!((o == h) == same);
                    }
                    // clear_checksum zeroes the checksum bytes and nothing else
                    let mut hc = h;
                    hc.clear_checksum();
                    let mut out2 = [0u8; $n];
                    hc.store_into_bytes(&mut out2).unwrap();
                    assert!(out2[j] == if j < $ck { 0 } else { bytes[j] });
                }
            }
            kani::cover!(r.is_ok());
        }
    };
}
//@ h=c06_bin_short props=C06,C08,C17 cfgs=K1,K10 tier=q t=600 | funcs: Short::{TryFrom<&[u8;15]>, TryFrom<&[u8]>, store_into_bytes, checksum, length, qratios, body, quartile, clear_checksum, PartialEq} | bound: all 2^120 values; symbolic byte/bucket indices
c06_bin!(c06_bin_short, Short, 1, 48, 15, 20, false);
//@ h=c06_bin_normal props=C06,C08 cfgs=K1 tier=q t=600 | funcs: Normal binary form and accessors | bound: all 2^280 values
c06_bin!(c06_bin_normal, Normal, 1, 128, 35, 40, false);
//@ h=c06_bin_normall props=C06,C08 cfgs=K1 tier=q t=600 | funcs: NormalWithLongChecksum binary form and accessors | bound: all 2^296 values
c06_bin!(c06_bin_normall, NormalWithLongChecksum, 3, 128, 37, 40, false);
//@ h=c06_bin_long props=C06,C08 cfgs=K1 tier=q t=900 | funcs: Long binary form and accessors | bound: all 2^536 values
c06_bin!(c06_bin_long, Long, 1, 256, 67, 72, false);
//@ h=c06_bin_longl props=C06,C08,C17 cfgs=K1,K10 tier=q t=900 | funcs: LongWithLongChecksum binary form and accessors | bound: all 2^552 values
c06_bin!(c06_bin_longl, LongWithLongChecksum, 3, 256, 69, 72, false);
//@ h=c15_bin_short props=C15 cfgs=K7 tier=q t=600 | funcs: Short::TryFrom<&[u8;15]> / <&[u8]> with strict-parser | bound: all 2^120 byte arrays
c06_bin!(c15_bin_short, Short, 1, 48, 15, 20, true);
//@ h=c15_bin_normal props=C15 cfgs=K7 tier=q t=600 | funcs: Normal::TryFrom (strict) | bound: all byte arrays
c06_bin!(c15_bin_normal, Normal, 1, 128, 35, 40, true);
//@ h=c15_bin_longl props=C15 cfgs=K7 tier=q t=900 | funcs: LongWithLongChecksum::TryFrom (strict) | bound: all byte arrays
c06_bin!(c15_bin_longl, LongWithLongChecksum, 3, 256, 69, 72, true);

macro_rules! c06_len {
    ($name:ident, $ty:ty, $n:literal, $unw:literal) => {
        #[kani::proof]
        #[kani::unwind($unw)]
        fn $name() {
            let buf: [u8; $n + 3] = kani::any();
            let len: usize = kani::any();
            kani::assume(len <= $n + 3 && len != $n);
            let r = <$ty>::try_from(&buf[..len]);
            assert!(r == Err(ParseError::InvalidStringLength));
        }
    };
}
//@ h=c06_len_short props=C06 cfgs=K1,K7 tier=q t=300 | funcs: Short::TryFrom<&[u8]> | bound: all slice lengths 0..=18 except 15 (symbolic length)
c06_len!(c06_len_short, Short, 15, 20);
//@ h=c06_len_normal props=C06 cfgs=K1 tier=q t=300 | funcs: Normal::TryFrom<&[u8]> | bound: all slice lengths 0..=38 except 35
c06_len!(c06_len_normal, Normal, 35, 40);
//@ h=c06_len_longl props=C06 cfgs=K1 tier=q t=300 | funcs: LongWithLongChecksum::TryFrom<&[u8]> | bound: all slice lengths 0..=72 except 69
c06_len!(c06_len_longl, LongWithLongChecksum, 69, 74);

macro_rules! c06_oob {
    ($name:ident, $ty:ty, $n:literal, $idx:expr) => {
        #[kani::proof]
        #[kani::unwind(4)]
        #[kani::should_panic]
        fn $name() {
            let bytes: [u8; $n] = kani::any();
            let h = <$ty>::try_from(&bytes).unwrap();
            let _ = h.body().quartile($idx);
        }
    };
}
//@ h=c06_oob_short props=C06,C17 cfgs=K1 tier=q t=120 | funcs: FuzzyHashBody::quartile (documented panic) | bound: index 48 on any Short value must panic
c06_oob!(c06_oob_short, Short, 15, 48);
//@ h=c06_oob_long props=C06,C17 cfgs=K1 tier=q t=120 | funcs: FuzzyHashBody::quartile (documented panic) | bound: index usize::MAX on any Long value must panic
c06_oob!(c06_oob_long, Long, 67, usize::MAX);

// ------------------------------------------------------------------ C14: caller's buffer

// form: 0 = binary, 1 = hex without prefix, 2 = hex with "T1" (concrete per instance: a symbolic
// form makes the output cursor a symbolic-offset pointer, see c04_fmt)
macro_rules! c14_buf {
    ($name:ident, $ty:ty, $n:literal, $l:literal, $form:literal, $unw:literal) => {
        #[kani::proof]
        #[kani::unwind($unw)]
        fn $name() {
            let bytes: [u8; $n] = kani::any();
            let h = <$ty>::try_from(&bytes).unwrap();
            let need: usize = match $form {
                0 => $n,
                1 => $l - 2,
                _ => $l,
            };
            let mut buf: [u8; $l + 64] = kani::any();
            let prior = buf;
            let len: usize = kani::any();
            kani::assume(len <= need + 64);
            let r = match $form {
                0 => h.store_into_bytes(&mut buf[..len]),
                1 => h.store_into_str_bytes(&mut buf[..len], HexStringPrefix::Empty),
                _ => h.store_into_str_bytes(&mut buf[..len], HexStringPrefix::WithVersion),
            };
            let k: usize = kani::any();
            kani::assume(k < $l + 64);
            if len < need {
                assert!(r == Err(OperationError::BufferIsTooSmall));
                assert!(buf[k] == prior[k]);
            } else {
                assert!(r == Ok(need));
                if k >= need {
                    assert!(buf[k] == prior[k]);
                } else {
                    // same representation as into an exactly sized buffer
                    let mut exact = [0u8; $l];
                    let _ = match $form {
                        0 => h.store_into_bytes(&mut exact[..need]),
                        1 => h.store_into_str_bytes(&mut exact[..need], HexStringPrefix::Empty),
                        _ => h.store_into_str_bytes(&mut exact[..need], HexStringPrefix::WithVersion),
                    };
                    assert!(buf[k] == exact[k]);
                    if $form == 0 {
                        assert!(buf[k] == bytes[k]);
                    }
                }
            }
            kani::cover!(len < need);
            kani::cover!(len == need);
            kani::cover!(len == need + 64);
        }
    };
}
// concrete buffer length (the table-based encoders copy 2-byte table rows into chunks of the
// destination; with a symbolic destination length CBMC runs out of memory)
macro_rules! c14_bufc {
    ($name:ident, $ty:ty, $n:literal, $l:literal, $form:literal, $len:literal, $unw:literal) => {
        #[kani::proof]
        #[kani::unwind($unw)]
        fn $name() {
            let bytes: [u8; $n] = kani::any();
            let h = <$ty>::try_from(&bytes).unwrap();
            let need: usize = match $form {
                0 => $n,
                1 => $l - 2,
                _ => $l,
            };
            let mut buf: [u8; $l + 64] = kani::any();
            let prior = buf;
            let r = match $form {
                0 => h.store_into_bytes(&mut buf[..$len]),
                1 => h.store_into_str_bytes(&mut buf[..$len], HexStringPrefix::Empty),
                _ => h.store_into_str_bytes(&mut buf[..$len], HexStringPrefix::WithVersion),
            };
            let k: usize = kani::any();
            kani::assume(k < $l + 64);
            if $len < need {
                assert!(r == Err(OperationError::BufferIsTooSmall));
                assert!(buf[k] == prior[k]);
            } else {
                assert!(r == Ok(need));
                if k >= need {
                    assert!(buf[k] == prior[k]);
                } else {
                    let mut exact = [0u8; $l];
                    let _ = match $form {
                        0 => h.store_into_bytes(&mut exact[..need]),
                        1 => h.store_into_str_bytes(&mut exact[..need], HexStringPrefix::Empty),
                        _ => h.store_into_str_bytes(&mut exact[..need], HexStringPrefix::WithVersion),
                    };
                    assert!(buf[k] == exact[k]);
                }
            }
        }
    };
}

// the same harness with the external hex-simd crate replaced by its documented contract (K6)
#[cfg(feature = "opt-simd-convert-hex")]
macro_rules! c14_bufc_k6 {
    ($name:ident, $ty:ty, $n:literal, $l:literal, $form:literal, $len:literal, $unw:literal) => {
        #[kani::proof]
        #[kani::unwind($unw)]
        #[kani::stub(crate::verif::hexsimd::hs_encode, crate::verif::hexsimd::stub_hex_encode)]
        #[kani::stub(crate::verif::hexsimd::hs_decode, crate::verif::hexsimd::stub_hex_decode)]
        fn $name() {
            let bytes: [u8; $n] = kani::any();
            let h = <$ty>::try_from(&bytes).unwrap();
            let need: usize = match $form {
                0 => $n,
                1 => $l - 2,
                _ => $l,
            };
            let mut buf: [u8; $l + 64] = kani::any();
            let prior = buf;
            let r = match $form {
                0 => h.store_into_bytes(&mut buf[..$len]),
                1 => h.store_into_str_bytes(&mut buf[..$len], HexStringPrefix::Empty),
                _ => h.store_into_str_bytes(&mut buf[..$len], HexStringPrefix::WithVersion),
            };
            let k: usize = kani::any();
            kani::assume(k < $l + 64);
            if $len < need {
                assert!(r == Err(OperationError::BufferIsTooSmall));
                assert!(buf[k] == prior[k]);
            } else {
                assert!(r == Ok(need));
                if k >= need {
                    assert!(buf[k] == prior[k]);
                } else {
                    let mut exact = [0u8; $l];
                    let _ = match $form {
                        0 => h.store_into_bytes(&mut exact[..need]),
                        1 => h.store_into_str_bytes(&mut exact[..need], HexStringPrefix::Empty),
                        _ => h.store_into_str_bytes(&mut exact[..need], HexStringPrefix::WithVersion),
                    };
                    assert!(buf[k] == exact[k]);
                }
            }
        }
    };
}
//@ h=c14_short_hex_0 props=C14 cfgs=K1,K2 tier=q t=600 | funcs: Short::store_into_str_bytes(Empty) with the table-based encoders | bound: all values x arbitrary prior content, buffer length 0 (concrete)
c14_bufc!(c14_short_hex_0, Short, 15, 32, 1, 0, 40);
//@ h=c14_short_hex_28 props=C14 cfgs=K1,K2 tier=q t=600 | funcs: Short::store_into_str_bytes(Empty) with the table-based encoders | bound: all values x arbitrary prior content, buffer length 28 (concrete)
c14_bufc!(c14_short_hex_28, Short, 15, 32, 1, 28, 40);
//@ h=c14_short_hex_29 props=C14 cfgs=K1,K2 tier=q t=600 | funcs: Short::store_into_str_bytes(Empty) with the table-based encoders | bound: all values x arbitrary prior content, buffer length 29 (concrete)
c14_bufc!(c14_short_hex_29, Short, 15, 32, 1, 29, 40);
//@ h=c14_short_hex_30 props=C14 cfgs=K1,K2 tier=q t=600 | funcs: Short::store_into_str_bytes(Empty) with the table-based encoders | bound: all values x arbitrary prior content, buffer length 30 (concrete)
c14_bufc!(c14_short_hex_30, Short, 15, 32, 1, 30, 40);
//@ h=c14_short_hex_31 props=C14 cfgs=K1,K2 tier=q t=600 | funcs: Short::store_into_str_bytes(Empty) with the table-based encoders | bound: all values x arbitrary prior content, buffer length 31 (concrete)
c14_bufc!(c14_short_hex_31, Short, 15, 32, 1, 31, 40);
//@ h=c14_short_hex_94 props=C14 cfgs=K1,K2 tier=q t=600 | funcs: Short::store_into_str_bytes(Empty) with the table-based encoders | bound: all values x arbitrary prior content, buffer length 94 (concrete)
c14_bufc!(c14_short_hex_94, Short, 15, 32, 1, 94, 40);
//@ h=c14_short_t1_0 props=C14 cfgs=K1 tier=q t=600 | funcs: Short::store_into_str_bytes(WithVersion) with the table-based encoders | bound: all values x arbitrary prior content, buffer length 0 (concrete)
c14_bufc!(c14_short_t1_0, Short, 15, 32, 2, 0, 40);
//@ h=c14_short_t1_30 props=C14 cfgs=K1 tier=q t=600 | funcs: Short::store_into_str_bytes(WithVersion) with the table-based encoders | bound: all values x arbitrary prior content, buffer length 30 (concrete)
c14_bufc!(c14_short_t1_30, Short, 15, 32, 2, 30, 40);
//@ h=c14_short_t1_31 props=C14 cfgs=K1 tier=q t=600 | funcs: Short::store_into_str_bytes(WithVersion) with the table-based encoders | bound: all values x arbitrary prior content, buffer length 31 (concrete)
c14_bufc!(c14_short_t1_31, Short, 15, 32, 2, 31, 40);
//@ h=c14_short_t1_32 props=C14 cfgs=K1 tier=q t=600 | funcs: Short::store_into_str_bytes(WithVersion) with the table-based encoders | bound: all values x arbitrary prior content, buffer length 32 (concrete)
c14_bufc!(c14_short_t1_32, Short, 15, 32, 2, 32, 40);
//@ h=c14_short_t1_33 props=C14 cfgs=K1 tier=q t=600 | funcs: Short::store_into_str_bytes(WithVersion) with the table-based encoders | bound: all values x arbitrary prior content, buffer length 33 (concrete)
c14_bufc!(c14_short_t1_33, Short, 15, 32, 2, 33, 40);
//@ h=c14_short_t1_96 props=C14 cfgs=K1 tier=q t=600 | funcs: Short::store_into_str_bytes(WithVersion) with the table-based encoders | bound: all values x arbitrary prior content, buffer length 96 (concrete)
c14_bufc!(c14_short_t1_96, Short, 15, 32, 2, 96, 40);
//@ h=c14_normal_hex_69 props=C14 cfgs=K1 tier=q t=900 | funcs: Normal::store_into_str_bytes(Empty) | bound: all values x arbitrary prior content, buffer length 69 (concrete)
c14_bufc!(c14_normal_hex_69, Normal, 35, 72, 1, 69, 80);
//@ h=c14_normal_hex_70 props=C14 cfgs=K1 tier=q t=900 | funcs: Normal::store_into_str_bytes(Empty) | bound: all values x arbitrary prior content, buffer length 70 (concrete)
c14_bufc!(c14_normal_hex_70, Normal, 35, 72, 1, 70, 80);
//@ h=c14_normal_hex_134 props=C14 cfgs=K1 tier=q t=900 | funcs: Normal::store_into_str_bytes(Empty) | bound: all values x arbitrary prior content, buffer length 134 (concrete)
c14_bufc!(c14_normal_hex_134, Normal, 35, 72, 1, 134, 80);
//@ h=c14_normal_t1_71 props=C14 cfgs=K1 tier=q t=900 | funcs: Normal::store_into_str_bytes(WithVersion) | bound: all values x arbitrary prior content, buffer length 71 (concrete)
c14_bufc!(c14_normal_t1_71, Normal, 35, 72, 2, 71, 80);
//@ h=c14_normal_t1_72 props=C14 cfgs=K1 tier=q t=900 | funcs: Normal::store_into_str_bytes(WithVersion) | bound: all values x arbitrary prior content, buffer length 72 (concrete)
c14_bufc!(c14_normal_t1_72, Normal, 35, 72, 2, 72, 80);
//@ h=c14_normal_t1_136 props=C14 cfgs=K1 tier=q t=900 | funcs: Normal::store_into_str_bytes(WithVersion) | bound: all values x arbitrary prior content, buffer length 136 (concrete)
c14_bufc!(c14_normal_t1_136, Normal, 35, 72, 2, 136, 80);
//@ h=c14_longl_hex_137 props=C14 cfgs=K1 tier=t t=900 | funcs: LongWithLongChecksum::store_into_str_bytes(Empty) | bound: all values x arbitrary prior content, buffer length 137 (concrete)
c14_bufc!(c14_longl_hex_137, LongWithLongChecksum, 69, 140, 1, 137, 148);
//@ h=c14_longl_hex_138 props=C14 cfgs=K1 tier=t t=900 | funcs: LongWithLongChecksum::store_into_str_bytes(Empty) | bound: all values x arbitrary prior content, buffer length 138 (concrete)
c14_bufc!(c14_longl_hex_138, LongWithLongChecksum, 69, 140, 1, 138, 148);
//@ h=c14_longl_hex_202 props=C14 cfgs=K1 tier=t t=900 | funcs: LongWithLongChecksum::store_into_str_bytes(Empty) | bound: all values x arbitrary prior content, buffer length 202 (concrete)
c14_bufc!(c14_longl_hex_202, LongWithLongChecksum, 69, 140, 1, 202, 148);
//@ h=c14_longl_t1_139 props=C14 cfgs=K1 tier=t t=900 | funcs: LongWithLongChecksum::store_into_str_bytes(WithVersion) | bound: all values x arbitrary prior content, buffer length 139 (concrete)
c14_bufc!(c14_longl_t1_139, LongWithLongChecksum, 69, 140, 2, 139, 148);
//@ h=c14_longl_t1_140 props=C14 cfgs=K1 tier=t t=900 | funcs: LongWithLongChecksum::store_into_str_bytes(WithVersion) | bound: all values x arbitrary prior content, buffer length 140 (concrete)
c14_bufc!(c14_longl_t1_140, LongWithLongChecksum, 69, 140, 2, 140, 148);
//@ h=c14_longl_t1_204 props=C14 cfgs=K1 tier=t t=900 | funcs: LongWithLongChecksum::store_into_str_bytes(WithVersion) | bound: all values x arbitrary prior content, buffer length 204 (concrete)
c14_bufc!(c14_longl_t1_204, LongWithLongChecksum, 69, 140, 2, 204, 148);
//@ h=c14_short_bin props=C14,C17 cfgs=K1 tier=q t=900 | funcs: Short::store_into_bytes | bound: all values x ALL buffer lengths 0..=N+64 (symbolic length) x arbitrary prior content
c14_buf!(c14_short_bin, Short, 15, 32, 0, 36);
//@ h=c14_short_hex props=C14,C17 cfgs=K3 tier=q t=900 | funcs: Short::store_into_str_bytes(Empty) with the nibble-table encoders (opt-low-memory-hex-str-encode-min-table) | bound: all values x all buffer lengths 0..=N+64 (symbolic) x arbitrary prior content
c14_buf!(c14_short_hex, Short, 15, 32, 1, 36);
//@ h=c14_short_t1 props=C14,C17 cfgs=K3 tier=q t=900 | funcs: Short::store_into_str_bytes(WithVersion), nibble-table encoders | bound: all values x all buffer lengths 0..=N+64 (symbolic) x arbitrary prior content
c14_buf!(c14_short_t1, Short, 15, 32, 2, 36);
//@ h=c14_normall_bin props=C14,C17 cfgs=K1 tier=q t=900 | funcs: NormalWithLongChecksum::store_into_bytes | bound: all values x all buffer lengths (symbolic)
c14_buf!(c14_normall_bin, NormalWithLongChecksum, 37, 76, 0, 80);
//@ h=c14_longl_bin props=C14,C17 cfgs=K1 tier=q t=900 | funcs: LongWithLongChecksum::store_into_bytes | bound: all values x all buffer lengths (symbolic)
c14_buf!(c14_longl_bin, LongWithLongChecksum, 69, 140, 0, 144);
//@ h=c14_normal_t1 props=C14 cfgs=K3 tier=t t=1800 | funcs: Normal::store_into_str_bytes(WithVersion), nibble-table encoders | bound: all values x all buffer lengths (symbolic)
c14_buf!(c14_normal_t1, Normal, 35, 72, 2, 76);

// ------------------------------------------------------------------ default configuration (K6):
// body digits go through the external hex-simd crate, modelled by its documented contract
// (harness/hexsimd.rs); header digits through the crate's own tables.
//@ h=k6_fmt_short_p props=C04,C07,C14,C17 cfgs=K6 tier=q t=900 | funcs: Short::store_into_str_bytes(WithVersion) with feature simd (hex_simd::encode for the body) | bound: all values | stubs: hex_simd::encode/decode -> documented contract (upper-case digits into the first 2n bytes, panics if the output is too short; decode accepts both cases, Err on any non-digit)
#[cfg(feature = "opt-simd-convert-hex")]
c04_fmt_k6!(k6_fmt_short_p, Short, 1, 15, 32, true, 36);
//@ h=k6_fmt_normal_e props=C04,C07 cfgs=K6 tier=q t=900 | funcs: Normal::store_into_str_bytes(Empty) with feature simd | bound: all values | stubs: hex-simd contract
#[cfg(feature = "opt-simd-convert-hex")]
c04_fmt_k6!(k6_fmt_normal_e, Normal, 1, 35, 72, false, 76);
//@ h=k6_rt_short_pa props=C04,C07 cfgs=K6 tier=q t=900 | funcs: Short text round trip with feature simd | bound: all values | stubs: hex-simd contract
#[cfg(feature = "opt-simd-convert-hex")]
c04_rt_k6!(k6_rt_short_pa, Short, 15, 32, true, true, 36);
//@ h=k6_rt_longl_ee props=C04,C07 cfgs=K6 tier=t t=1800 | funcs: LongWithLongChecksum text round trip with feature simd | bound: all values | stubs: hex-simd contract
#[cfg(feature = "opt-simd-convert-hex")]
c04_rt_k6!(k6_rt_longl_ee, LongWithLongChecksum, 69, 140, false, false, 144);
//@ h=k6_parse_short_32 props=C05,C07,C17 cfgs=K6 tier=q t=900 | funcs: Short::from_str_bytes with feature simd (hex_simd::decode for the body) | bound: ALL byte strings of length 32 x 3 prefix modes | stubs: hex-simd contract
#[cfg(feature = "opt-simd-convert-hex")]
c05_parse_k6!(k6_parse_short_32, Short, 1, 15, 32, 32, 36, false);
//@ h=k6_parse_normal_70 props=C05,C07 cfgs=K6 tier=q t=1200 | funcs: Normal::from_str_bytes with feature simd | bound: ALL byte strings of length 70 x 3 prefix modes | stubs: hex-simd contract
#[cfg(feature = "opt-simd-convert-hex")]
c05_parse_k6!(k6_parse_normal_70, Normal, 1, 35, 72, 70, 76, false);
//@ h=k6_buf_short_t1_30 props=C14,C17,C07 cfgs=K6 tier=q t=600 | funcs: Short::store_into_str_bytes(WithVersion) with feature simd, buffer of 30 bytes | bound: all values: BufferIsTooSmall, buffer untouched, and NO panic inside hex_simd::encode | stubs: hex-simd contract (incl. its documented panic)
#[cfg(feature = "opt-simd-convert-hex")]
c14_bufc_k6!(k6_buf_short_t1_30, Short, 15, 32, 2, 30, 40);
//@ h=k6_buf_short_t1_31 props=C14,C17,C07 cfgs=K6 tier=q t=600 | funcs: Short::store_into_str_bytes(WithVersion) with feature simd, buffer of 31 bytes | bound: all values | stubs: hex-simd contract
#[cfg(feature = "opt-simd-convert-hex")]
c14_bufc_k6!(k6_buf_short_t1_31, Short, 15, 32, 2, 31, 40);
//@ h=k6_buf_short_t1_96 props=C14,C07 cfgs=K6 tier=q t=600 | funcs: Short::store_into_str_bytes(WithVersion) with feature simd, oversized buffer of 96 bytes | bound: all values: bytes beyond 32 untouched (within the contract of hex_simd::encode) | stubs: hex-simd contract
#[cfg(feature = "opt-simd-convert-hex")]
c14_bufc_k6!(k6_buf_short_t1_96, Short, 15, 32, 2, 96, 40);
//@ h=k6_buf_normal_hex_69 props=C14,C17,C07 cfgs=K6 tier=q t=900 | funcs: Normal::store_into_str_bytes(Empty) with feature simd, buffer of 69 bytes | bound: all values | stubs: hex-simd contract
#[cfg(feature = "opt-simd-convert-hex")]
c14_bufc_k6!(k6_buf_normal_hex_69, Normal, 35, 72, 1, 69, 80);

// C16: serde through a scripted mock Serializer / Deserializer (feature `serde`; K8, K8s, K8b).
#![cfg(feature = "serde")]
#![allow(missing_docs)]
#![allow(clippy::all)]
#![allow(unused_imports)]
#![allow(unsafe_code)]
#![allow(dead_code)]

use crate::errors::ParseError;
use crate::hash::HexStringPrefix;
use crate::hashes::{Long, LongWithLongChecksum, Normal, NormalWithLongChecksum, Short};
use crate::FuzzyHashType;
use serde::de::{Deserialize, Deserializer, Visitor};
use serde::ser::{Impossible, Serialize, Serializer};

/// Error type that ignores its message (no `format!` is ever executed).
#[derive(Debug, Clone, Copy, PartialEq, Eq)]
pub struct MockErr;
impl core::fmt::Display for MockErr {
    fn fmt(&self, f: &mut core::fmt::Formatter<'_>) -> core::fmt::Result {
        f.write_str("mock")
    }
}
impl std::error::Error for MockErr {}
impl serde::ser::Error for MockErr {
    fn custom<T: core::fmt::Display>(_msg: T) -> Self {
        MockErr
    }
}
impl serde::de::Error for MockErr {
    fn custom<T: core::fmt::Display>(_msg: T) -> Self {
        MockErr
    }
}

// ---------------------------------------------------------------- serializer

const CAP: usize = 144;

#[derive(Clone, Copy)]
pub struct Recorded {
    kind: u8, // 1 = str, 2 = bytes
    len: usize,
    data: [u8; CAP],
}

struct MockSer {
    human: bool,
}

macro_rules! refuse {
    ($($m:ident($t:ty)),*) => { $(fn $m(self, _v: $t) -> Result<Recorded, MockErr> { Err(MockErr) })* };
}

impl Serializer for MockSer {
    type Ok = Recorded;
    type Error = MockErr;
    type SerializeSeq = Impossible<Recorded, MockErr>;
    type SerializeTuple = Impossible<Recorded, MockErr>;
    type SerializeTupleStruct = Impossible<Recorded, MockErr>;
    type SerializeTupleVariant = Impossible<Recorded, MockErr>;
    type SerializeMap = Impossible<Recorded, MockErr>;
    type SerializeStruct = Impossible<Recorded, MockErr>;
    type SerializeStructVariant = Impossible<Recorded, MockErr>;
    refuse!(serialize_bool(bool), serialize_i8(i8), serialize_i16(i16), serialize_i32(i32),
        serialize_i64(i64), serialize_u8(u8), serialize_u16(u16), serialize_u32(u32),
        serialize_u64(u64), serialize_f32(f32), serialize_f64(f64), serialize_char(char));
    fn serialize_str(self, v: &str) -> Result<Recorded, MockErr> {
        let b = v.as_bytes();
        let mut r = Recorded { kind: 1, len: b.len(), data: [0; CAP] };
        let mut i = 0;
        while i < b.len() && i < CAP {
            r.data[i] = b[i];
            i += 1;
        }
        Ok(r)
    }
    fn serialize_bytes(self, b: &[u8]) -> Result<Recorded, MockErr> {
        let mut r = Recorded { kind: 2, len: b.len(), data: [0; CAP] };
        let mut i = 0;
        while i < b.len() && i < CAP {
            r.data[i] = b[i];
            i += 1;
        }
        Ok(r)
    }
    fn serialize_none(self) -> Result<Recorded, MockErr> {
        Err(MockErr)
    }
    fn serialize_some<T: ?Sized + Serialize>(self, _v: &T) -> Result<Recorded, MockErr> {
        Err(MockErr)
    }
    fn serialize_unit(self) -> Result<Recorded, MockErr> {
        Err(MockErr)
    }
    fn serialize_unit_struct(self, _n: &'static str) -> Result<Recorded, MockErr> {
        Err(MockErr)
    }
    fn serialize_unit_variant(self, _n: &'static str, _i: u32, _v: &'static str) -> Result<Recorded, MockErr> {
        Err(MockErr)
    }
    fn serialize_newtype_struct<T: ?Sized + Serialize>(self, _n: &'static str, _v: &T) -> Result<Recorded, MockErr> {
        Err(MockErr)
    }
    fn serialize_newtype_variant<T: ?Sized + Serialize>(
        self, _n: &'static str, _i: u32, _v: &'static str, _t: &T,
    ) -> Result<Recorded, MockErr> {
        Err(MockErr)
    }
    fn serialize_seq(self, _l: Option<usize>) -> Result<Self::SerializeSeq, MockErr> {
        Err(MockErr)
    }
    fn serialize_tuple(self, _l: usize) -> Result<Self::SerializeTuple, MockErr> {
        Err(MockErr)
    }
    fn serialize_tuple_struct(self, _n: &'static str, _l: usize) -> Result<Self::SerializeTupleStruct, MockErr> {
        Err(MockErr)
    }
    fn serialize_tuple_variant(
        self, _n: &'static str, _i: u32, _v: &'static str, _l: usize,
    ) -> Result<Self::SerializeTupleVariant, MockErr> {
        Err(MockErr)
    }
    fn serialize_map(self, _l: Option<usize>) -> Result<Self::SerializeMap, MockErr> {
        Err(MockErr)
    }
    fn serialize_struct(self, _n: &'static str, _l: usize) -> Result<Self::SerializeStruct, MockErr> {
        Err(MockErr)
    }
    fn serialize_struct_variant(
        self, _n: &'static str, _i: u32, _v: &'static str, _l: usize,
    ) -> Result<Self::SerializeStructVariant, MockErr> {
        Err(MockErr)
    }
    fn is_human_readable(&self) -> bool {
        self.human
    }
}

macro_rules! c16_ser {
    ($name:ident, $ty:ty, $n:literal, $l:literal, $unw:literal) => {
        #[kani::proof]
        #[kani::unwind($unw)]
        #[kani::stub(core::str::from_utf8, crate::verif::refmodel::stub_from_utf8)]
        fn $name() {
            let bytes: [u8; $n] = kani::any();
            let h = <$ty>::try_from(&bytes).unwrap();
            let human: bool = kani::any();
            let r = h.serialize(MockSer { human }).unwrap();
            if human {
                let mut text = [0u8; $l];
                h.store_into_str_bytes(&mut text, HexStringPrefix::WithVersion).unwrap();
                assert!(r.kind == 1 && r.len == $l);
                let k: usize = kani::any();
                kani::assume(k < $l);
                assert!(r.data[k] == text[k]);
                assert!(r.data[0] == b'T' && r.data[1] == b'1');
            } else {
                assert!(r.kind == 2 && r.len == $n);
                let k: usize = kani::any();
                kani::assume(k < $n);
                assert!(r.data[k] == bytes[k]);
            }
            kani::cover!(human);
            kani::cover!(!human);
        }
    };
}
//@ h=c16_ser_short props=C16 cfgs=K8,K8b tier=q t=900 | funcs: <Short as Serialize>::serialize (is_human_readable switch) | bound: all values x both format classes: exactly one serialize_str("T1..") / serialize_bytes(binary form) | stubs: mock Serializer; core::str::from_utf8 -> contract (ASCII is valid UTF-8; non-ASCII fails the harness)
c16_ser!(c16_ser_short, Short, 15, 32, 148);
//@ h=c16_ser_normal props=C16 cfgs=K8 tier=q t=1200 | funcs: <Normal as Serialize>::serialize | bound: all values x both format classes | stubs: mock Serializer; core::str::from_utf8 -> contract (ASCII is valid UTF-8; non-ASCII fails the harness)
c16_ser!(c16_ser_normal, Normal, 35, 72, 148);
//@ h=c16_ser_longl props=C16 cfgs=K8 tier=t t=1800 | funcs: <LongWithLongChecksum as Serialize>::serialize | bound: all values x both format classes | stubs: mock Serializer; core::str::from_utf8 -> contract (ASCII is valid UTF-8; non-ASCII fails the harness)
c16_ser!(c16_ser_longl, LongWithLongChecksum, 69, 140, 148);

// ---------------------------------------------------------------- deserializer

#[derive(Clone, Copy, PartialEq, Eq)]
enum Ev {
    Str,
    Bytes,
    U64,
    I64,
    Bool,
    Unit,
    F64,
    None,
    BorrowedStr,
    BorrowedBytes,
    Char,
    Seq,
    U128,
}

/// An empty sequence (for `visit_seq`).
struct EmptySeq;
impl<'de> serde::de::SeqAccess<'de> for EmptySeq {
    type Error = MockErr;
    fn next_element_seed<T: serde::de::DeserializeSeed<'de>>(
        &mut self,
        _seed: T,
    ) -> Result<Option<T::Value>, MockErr> {
        Ok(None)
    }
}

struct MockDe<'a> {
    human: bool,
    ev: Ev,
    data: &'a [u8],
    /// which deserialize_* entry was used: 1 str, 2 string, 3 bytes, 4 byte_buf, 0 other
    entry: &'a mut u8,
}

impl<'de, 'a: 'de> MockDe<'a> {
    fn drive<V: Visitor<'de>>(self, v: V) -> Result<V::Value, MockErr> {
        match self.ev {
            Ev::Str => v.visit_str(unsafe { core::str::from_utf8_unchecked(self.data) }),
            Ev::Bytes => v.visit_bytes(self.data),
            Ev::BorrowedStr => v.visit_borrowed_str(unsafe { core::str::from_utf8_unchecked(self.data) }),
            Ev::BorrowedBytes => v.visit_borrowed_bytes(self.data),
            Ev::Char => v.visit_char('T'),
            Ev::Seq => v.visit_seq(EmptySeq),
            Ev::U128 => v.visit_u128(1u128 << 100),
            Ev::U64 => v.visit_u64(42),
            Ev::I64 => v.visit_i64(-1),
            Ev::Bool => v.visit_bool(true),
            Ev::Unit => v.visit_unit(),
            Ev::F64 => v.visit_f64(1.5),
            Ev::None => v.visit_none(),
        }
    }
}

impl<'de, 'a: 'de> Deserializer<'de> for MockDe<'a> {
    type Error = MockErr;
    fn deserialize_any<V: Visitor<'de>>(self, v: V) -> Result<V::Value, MockErr> {
        *self.entry = 0;
        self.drive(v)
    }
    fn deserialize_str<V: Visitor<'de>>(self, v: V) -> Result<V::Value, MockErr> {
        *self.entry = 1;
        self.drive(v)
    }
    fn deserialize_string<V: Visitor<'de>>(self, v: V) -> Result<V::Value, MockErr> {
        *self.entry = 2;
        self.drive(v)
    }
    fn deserialize_bytes<V: Visitor<'de>>(self, v: V) -> Result<V::Value, MockErr> {
        *self.entry = 3;
        self.drive(v)
    }
    fn deserialize_byte_buf<V: Visitor<'de>>(self, v: V) -> Result<V::Value, MockErr> {
        *self.entry = 4;
        self.drive(v)
    }
    serde::forward_to_deserialize_any! {
        bool i8 i16 i32 i64 i128 u8 u16 u32 u64 u128 f32 f64 char option unit unit_struct
        newtype_struct seq tuple tuple_struct map struct enum identifier ignored_any
    }
    fn is_human_readable(&self) -> bool {
        self.human
    }
}

fn sym_ev() -> Ev {
    let c: u8 = kani::any();
    kani::assume(c < 13);
    match c {
        0 => Ev::Str,
        1 => Ev::Bytes,
        2 => Ev::U64,
        3 => Ev::I64,
        4 => Ev::Bool,
        5 => Ev::Unit,
        6 => Ev::F64,
        7 => Ev::None,
        8 => Ev::BorrowedStr,
        9 => Ev::BorrowedBytes,
        10 => Ev::Char,
        11 => Ev::Seq,
        _ => Ev::U128,
    }
}

macro_rules! c16_de {
    ($name:ident, $ty:ty, $n:literal, $l:literal, $len:literal, $unw:literal) => {
        #[kani::proof]
        #[kani::unwind($unw)]
        fn $name() {
            let data: [u8; $len] = kani::any();
            let human: bool = kani::any();
            let ev = sym_ev();
            if ev == Ev::Str || ev == Ev::BorrowedStr {
                // a &str is UTF-8: restrict to ASCII content
                let mut i = 0;
                while i < $len {
                    kani::assume(data[i] < 128);
                    i += 1;
                }
            }
            let mut entry = 9u8;
            let r = <$ty>::deserialize(MockDe { human, ev, data: &data, entry: &mut entry });
            // which entry point the impl must use
            let buffered = cfg!(feature = "serde-buffered");
            assert!(entry == match (human, buffered) {
                (true, false) => 1,
                (true, true) => 2,
                (false, false) => 3,
                (false, true) => 4,
            });
            let expect: Option<$ty> = if human {
                match ev {
                    Ev::Str | Ev::Bytes | Ev::BorrowedStr | Ev::BorrowedBytes => {
                        <$ty>::from_str_bytes(&data, None).ok()
                    }
                    _ => None,
                }
            } else {
                match ev {
                    Ev::Bytes | Ev::BorrowedBytes => <$ty>::try_from(&data[..]).ok(),
                    _ => None,
                }
            };
            match (r, expect) {
                (Ok(a), Some(b)) => assert!(a == b),
                (Err(_), None) => {}
                _ => assert!(false),
            }
            let human_ok_possible = $len == $l || $len == $l - 2;
            let bin_ok_possible = $len == $n;
            kani::cover!((r.is_ok() && human) || !human_ok_possible);
            kani::cover!((r.is_ok() && !human) || !bin_ok_possible);
            kani::cover!(r.is_err() && ev == Ev::Bytes && !human || bin_ok_possible && !cfg!(feature = "strict-parser"));
            kani::cover!(ev == Ev::Seq && r.is_err());
            kani::cover!(ev == Ev::BorrowedBytes);
            kani::cover!(r.is_err());
        }
    };
}
// event payload lengths are concrete; content symbolic
//@ h=c16_de_short_32 props=C16 cfgs=K8,K8s,K8b tier=q t=1800 | funcs: <Short as Deserialize>::deserialize, FuzzyHashStringVisitor::{visit_str, visit_bytes}, FuzzyHashBytesVisitor::visit_bytes, default Visitor methods | bound: payload of 32 bytes (any content) x 13 visitor events (str, bytes, borrowed str/bytes, u64, i64, u128, bool, unit, f64, none, char, empty seq) x human_readable in {true,false}: Ok iff the matching parser accepts, same value, never a panic | stubs: mock Deserializer, message-ignoring error type | assume: str events carry ASCII
c16_de!(c16_de_short_32, Short, 15, 32, 32, 36);
//@ h=c16_de_short_30 props=C16 cfgs=K8,K8s tier=q t=1800 | funcs: <Short as Deserialize>::deserialize | bound: payload of 30 bytes x events x human_readable | stubs: mock Deserializer | assume: str events carry ASCII
c16_de!(c16_de_short_30, Short, 15, 32, 30, 36);
//@ h=c16_de_short_15 props=C16 cfgs=K8,K8s,K8b tier=q t=1800 | funcs: <Short as Deserialize>::deserialize (binary form) | bound: payload of 15 bytes (the binary size; any content incl. invalid checksum / length code) x events x human_readable | stubs: mock Deserializer | assume: str events carry ASCII
c16_de!(c16_de_short_15, Short, 15, 32, 15, 36);
//@ h=c16_de_short_14 props=C16 cfgs=K8,K8s tier=q t=900 | funcs: <Short as Deserialize>::deserialize | bound: payload of 14 bytes (wrong for every form) | stubs: mock Deserializer | assume: str events carry ASCII
c16_de!(c16_de_short_14, Short, 15, 32, 14, 36);
//@ h=c16_de_short_0 props=C16 cfgs=K8,K8s tier=q t=900 | funcs: <Short as Deserialize>::deserialize | bound: empty payload | stubs: mock Deserializer
c16_de!(c16_de_short_0, Short, 15, 32, 0, 36);
//@ h=c16_de_normal_35 props=C16 cfgs=K8,K8s tier=q t=1800 | funcs: <Normal as Deserialize>::deserialize (binary form) | bound: payload of 35 bytes x events x human_readable | stubs: mock Deserializer | assume: str events carry ASCII
c16_de!(c16_de_normal_35, Normal, 35, 72, 35, 76);
//@ h=c16_de_normal_72 props=C16 cfgs=K8,K8s tier=q t=2400 | funcs: <Normal as Deserialize>::deserialize (text form) | bound: payload of 72 bytes x events x human_readable | stubs: mock Deserializer | assume: str events carry ASCII
c16_de!(c16_de_normal_72, Normal, 35, 72, 72, 76);
//@ h=c16_de_longl_69 props=C16 cfgs=K8s tier=t t=2400 | funcs: <LongWithLongChecksum as Deserialize>::deserialize (binary form) | bound: payload of 69 bytes | stubs: mock Deserializer | assume: str events carry ASCII
c16_de!(c16_de_longl_69, LongWithLongChecksum, 69, 140, 69, 144);

// round trip through the mocks: de(ser(h)) == h
macro_rules! c16_rt {
    ($name:ident, $ty:ty, $n:literal, $human:literal, $unw:literal) => {
        #[kani::proof]
        #[kani::unwind($unw)]
        #[kani::stub(core::str::from_utf8, crate::verif::refmodel::stub_from_utf8)]
        fn $name() {
            let bytes: [u8; $n] = kani::any();
            // under strict-parser only valid values exist
            let h = match <$ty>::try_from(&bytes) {
                Ok(h) => h,
                Err(_) => return,
            };
            let r = h.serialize(MockSer { human: $human }).unwrap();
            let mut entry = 0u8;
            let ev = if $human { Ev::Str } else { Ev::Bytes };
            assert!(r.kind == if $human { 1 } else { 2 });
            let back = <$ty>::deserialize(MockDe { human: $human, ev, data: &r.data[..r.len], entry: &mut entry });
            assert!(back == Ok(h));
        }
    };
}
//@ h=c16_rt_short_h props=C16 cfgs=K8,K8s tier=q t=1800 | funcs: Short serialize then deserialize through the mocks, human-readable | bound: all (valid) values: lossless | stubs: mock Serializer/Deserializer; core::str::from_utf8 contract
c16_rt!(c16_rt_short_h, Short, 15, true, 148);
//@ h=c16_rt_short_b props=C16 cfgs=K8,K8s tier=q t=1800 | funcs: Short serialize then deserialize through the mocks, compact format | bound: all (valid) values: lossless | stubs: mock Serializer/Deserializer
c16_rt!(c16_rt_short_b, Short, 15, false, 148);
//@ h=c16_rt_normall_b props=C16 cfgs=K8 tier=t t=2400 | funcs: NormalWithLongChecksum serialize then deserialize, compact format | bound: all values | stubs: mock Serializer/Deserializer
c16_rt!(c16_rt_normall_b, NormalWithLongChecksum, 37, false, 148);
//@ h=c16_rt_normall_h props=C16 cfgs=K8 tier=t t=2400 | funcs: NormalWithLongChecksum serialize then deserialize, human-readable | bound: all values | stubs: mock Serializer/Deserializer; core::str::from_utf8 contract
c16_rt!(c16_rt_normall_h, NormalWithLongChecksum, 37, true, 148);

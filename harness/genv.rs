// C01/C07/C15/C18: bucket increment, checksum update (with the REAL mapping functions), clone.
#![allow(missing_docs)]
#![allow(clippy::all)]
#![allow(unused_imports)]
#![allow(dead_code)]

use crate::buckets::FuzzyHashBucketsData;
use crate::hash::checksum::inner::InnerChecksum;
use crate::hash::checksum::{FuzzyHashChecksum, FuzzyHashChecksumData};
use crate::verif::refmodel::*;

macro_rules! inc_lemma {
    ($name:ident, $nb:literal, $phys:expr) => {
        #[kani::proof]
        #[kani::unwind(4)]
        fn $name() {
            let mut b = FuzzyHashBucketsData::<$nb>::new();
            let k0: usize = kani::any();
            kani::assume(k0 < $phys);
            assert!(b.buckets[k0] == 0); // new() starts from zero
            b.buckets = kani::any();
            let before = b.buckets;
            let idx: u8 = kani::any();
            // the mapping functions only produce 0..=48 on the 48-bucket variant
            if $nb == 48 {
                kani::assume(idx <= 48);
            }
            b.increment(idx);
            let k: usize = kani::any();
            kani::assume(k < $phys);
            if k == idx as usize {
                assert!(b.buckets[k] == before[k].wrapping_add(1));
            } else {
                assert!(b.buckets[k] == before[k]);
            }
            // the effective buckets are the first $nb ones
            assert!(b.data().len() == $nb);
            if k < $nb {
                assert!(b.data()[k] == b.buckets[k]);
            }
            kani::cover!(before[idx as usize] == u32::MAX);
            kani::cover!((idx as usize) >= $nb || $nb == 256);
        }
    };
}
//@ h=inc_48 props=C01,C07,C17 cfgs=K1 tier=q t=300 | funcs: FuzzyHashBucketsData<48>::{new, increment, data} | bound: 256 symbolic counters (any value, incl. u32::MAX wrap), any index 0..=48: exactly that counter +1 (wrapping)
inc_lemma!(inc_48, 48, 256);
//@ h=inc_128 props=C01,C07,C17 cfgs=K1 tier=q t=300 | funcs: FuzzyHashBucketsData<128>::{new, increment, data} | bound: 256 symbolic counters, any index 0..=255
inc_lemma!(inc_128, 128, 256);
//@ h=inc_256 props=C01,C07,C17 cfgs=K1 tier=q t=300 | funcs: FuzzyHashBucketsData<256>::{new, increment, data} | bound: 256 symbolic counters, any index
inc_lemma!(inc_256, 256, 256);

macro_rules! inc_lowmem {
    ($name:ident, $nb:literal) => {
        #[cfg(feature = "opt-low-memory-buckets")]
        #[kani::proof]
        #[kani::unwind(4)]
        fn $name() {
            let mut b = FuzzyHashBucketsData::<$nb>::new();
            b.buckets = kani::any();
            let before = b.buckets;
            let idx: u8 = kani::any();
            b.increment(idx);
            let k: usize = kani::any();
            kani::assume(k < $nb);
            // same effect on the effective buckets as the 256-entry layout; others are dropped
            if k == idx as usize {
                assert!(b.buckets[k] == before[k].wrapping_add(1));
            } else {
                assert!(b.buckets[k] == before[k]);
            }
            assert!(b.data().len() == $nb);
            kani::cover!((idx as usize) >= $nb || $nb == 256);
        }
    };
}
//@ h=inc_lm_48 props=C01,C07,C17 cfgs=K3 tier=q t=300 | funcs: FuzzyHashBucketsData<48>::increment with opt-low-memory-buckets | bound: 48 symbolic counters, ANY index 0..=255 (out-of-range dropped, never out of bounds)
inc_lowmem!(inc_lm_48, 48);
//@ h=inc_lm_128 props=C01,C07,C17 cfgs=K3 tier=q t=300 | funcs: FuzzyHashBucketsData<128>::increment with opt-low-memory-buckets | bound: 128 symbolic counters, any index
inc_lowmem!(inc_lm_128, 128);
//@ h=inc_lm_256 props=C01,C07,C17 cfgs=K3 tier=q t=300 | funcs: FuzzyHashBucketsData<256>::increment with opt-low-memory-buckets | bound: 256 symbolic counters, any index
inc_lowmem!(inc_lm_256, 256);

//@ h=ck_update_1 props=C01,C15 cfgs=K0 tier=q t=900 | funcs: <FuzzyHashChecksumData<1,48|128|256> as InnerChecksum>::update with the real mapping functions | bound: any checksum state and byte pair: == reference Pearson chain with salt 0; 48-bucket result <= 48 (so generated Short hashes pass the strict parser)
#[kani::proof]
#[kani::unwind(4)]
fn ck_update_1() {
    let s: u8 = kani::any();
    let (cur, prev): (u8, u8) = (kani::any(), kani::any());
    let mut a = FuzzyHashChecksumData::<1, 48>::from_raw(&[s]);
    a.update(cur, prev);
    assert!(a.data()[0] == ref_map_48(0, cur, prev, s));
    assert!(a.data()[0] <= 48 && a.is_valid());
    let mut b = FuzzyHashChecksumData::<1, 128>::from_raw(&[s]);
    b.update(cur, prev);
    assert!(b.data()[0] == ref_map_256(0, cur, prev, s));
    let mut c = FuzzyHashChecksumData::<1, 256>::from_raw(&[s]);
    c.update(cur, prev);
    assert!(c.data()[0] == ref_map_256(0, cur, prev, s));
    assert!(FuzzyHashChecksumData::<1, 48>::new().data()[0] == 0);
    assert!(b.is_valid() && c.is_valid());
}

//@ h=ck_update_3 props=C01 cfgs=K0 tier=q t=1200 | funcs: <FuzzyHashChecksumData<3,128|256> as InnerChecksum>::update with the real mapping function | bound: any 3-byte state and byte pair: byte k salted with the new byte k-1
#[kani::proof]
#[kani::unwind(4)]
fn ck_update_3() {
    let s: [u8; 3] = kani::any();
    let (cur, prev): (u8, u8) = (kani::any(), kani::any());
    let e0 = ref_map_256(0, cur, prev, s[0]);
    let e1 = ref_map_256(e0, cur, prev, s[1]);
    let e2 = ref_map_256(e1, cur, prev, s[2]);
    let mut b = FuzzyHashChecksumData::<3, 128>::from_raw(&s);
    b.update(cur, prev);
    assert!(*b.data() == [e0, e1, e2]);
    let mut c = FuzzyHashChecksumData::<3, 256>::from_raw(&s);
    c.update(cur, prev);
    assert!(*c.data() == [e0, e1, e2]);
    assert!(*FuzzyHashChecksumData::<3, 256>::new().data() == [0, 0, 0]);
    assert!(b.is_valid());
}

// C18: the core operations never reach the allocator (reachability query over all inputs in the
// bound).  The three allocator entry points are replaced by `assert!(false)`.
#![allow(missing_docs)]
#![allow(clippy::all)]
#![allow(unused_imports)]
#![allow(unsafe_code)]
#![allow(dead_code)]

use crate::compare::ComparisonConfiguration;
use crate::generate::{Generator, GeneratorOptions};
use crate::hash::body::FuzzyHashBody;
use crate::hash::checksum::FuzzyHashChecksum;
use crate::hash::HexStringPrefix;
use crate::hashes::{Long, LongWithLongChecksum, Normal, NormalWithLongChecksum, Short};
use crate::length::DataLengthProcessingMode;
use crate::{FuzzyHashType, GeneratorType};
use core::alloc::Layout;

// Native replay (cargo kani playback = a test build): the stubs above are inactive, so a counting
// global allocator (per-thread counter, const-initialised TLS) makes an allocation observable.
#[cfg(test)]
mod counting {
    use std::alloc::{GlobalAlloc, Layout, System};
    use std::cell::Cell;
    thread_local! {
        pub static ALLOCS: Cell<usize> = const { Cell::new(0) };
    }
    pub struct Counting;
    unsafe impl GlobalAlloc for Counting {
        unsafe fn alloc(&self, l: Layout) -> *mut u8 {
            let _ = ALLOCS.try_with(|c| c.set(c.get() + 1));
            System.alloc(l)
        }
        unsafe fn dealloc(&self, p: *mut u8, l: Layout) {
            System.dealloc(p, l)
        }
        unsafe fn alloc_zeroed(&self, l: Layout) -> *mut u8 {
            let _ = ALLOCS.try_with(|c| c.set(c.get() + 1));
            System.alloc_zeroed(l)
        }
        unsafe fn realloc(&self, p: *mut u8, l: Layout, n: usize) -> *mut u8 {
            let _ = ALLOCS.try_with(|c| c.set(c.get() + 1));
            System.realloc(p, l, n)
        }
    }
    #[global_allocator]
    static A: Counting = Counting;
}

/// Number of heap allocations made by this thread so far (native replay only; 0 under Kani).
pub(crate) fn native_allocs() -> usize {
    #[cfg(test)]
    {
        counting::ALLOCS.with(|c| c.get())
    }
    #[cfg(not(test))]
    {
        0
    }
}

unsafe fn no_alloc(_l: Layout) -> *mut u8 {
    assert!(false, "heap allocation reached");
    core::ptr::null_mut()
}
unsafe fn no_realloc(_p: *mut u8, _l: Layout, _n: usize) -> *mut u8 {
    assert!(false, "heap reallocation reached");
    core::ptr::null_mut()
}

//@ h=c18_witness props=C18 cfgs=K1 tier=q t=300 | funcs: (vacuity witness) Vec allocation under the allocator stubs | bound: must FAIL (kani::should_panic): shows that the stubs intercept std's allocation path | stubs: std::alloc::{alloc, alloc_zeroed, realloc} -> assert!(false)
#[kani::proof]
#[kani::unwind(4)]
#[kani::should_panic]
#[kani::stub(std::alloc::alloc, no_alloc)]
#[kani::stub(std::alloc::alloc_zeroed, no_alloc)]
#[kani::stub(std::alloc::realloc, no_realloc)]
fn c18_witness() {
    let n: u8 = kani::any();
    let v = std::vec![n; 3];
    assert!(v[0] == n);
}

// (a `to_string` witness was tried and dropped: the fmt machinery under the allocator stubs
// does not finish in 30 min; `c18_witness` already shows that the stubs intercept allocations)

macro_rules! c18_hash_ops {
    ($name:ident, $ty:ty, $n:literal, $l:literal, $unw:literal) => {
        #[kani::proof]
        #[kani::unwind($unw)]
        #[kani::stub(std::alloc::alloc, no_alloc)]
        #[kani::stub(std::alloc::alloc_zeroed, no_alloc)]
        #[kani::stub(std::alloc::realloc, no_realloc)]
        fn $name() {
            // parse (accepting and rejecting), TryFrom, store_*, compare, clear_checksum, accessors
            let text: [u8; $l] = kani::any();
            let allocs_before = native_allocs();
            let with: bool = kani::any();
            let s: &[u8] = if with { &text[..] } else { &text[2..] };
            let parsed = <$ty>::from_str_bytes(s, None);
            let bytes: [u8; $n] = kani::any();
            let a = <$ty>::try_from(&bytes[..]).unwrap();
            let short_slice = <$ty>::try_from(&bytes[..$n - 1]);
            assert!(short_slice.is_err());
            let mut b = match parsed {
                Ok(h) => h,
                Err(_) => a,
            };
            let mut out = [0u8; $l];
            let _ = a.store_into_bytes(&mut out);
            let _ = a.store_into_str_bytes(&mut out, HexStringPrefix::WithVersion);
            let _ = a.store_into_str_bytes(&mut out[..3], HexStringPrefix::Empty);
            let mode = if kani::any() { ComparisonConfiguration::Default } else { ComparisonConfiguration::NoLength };
            let d = a.compare_with_config(&b, mode);
            assert!(d <= <$ty>::max_distance(mode));
            b.clear_checksum();
            let _ = (b.checksum().data()[0], b.length().value(), b.qratios().q1ratio(), b.body().quartile(0));
            let _ = (b.checksum().is_valid(), b.length().is_valid(), b.length().range());
            assert!(native_allocs() == allocs_before, "heap allocation during core operations");
            kani::cover!(parsed.is_ok());
            kani::cover!(parsed.is_err());
        }
    };
}
//@ h=c18_hash_ops_short props=C18,C17 cfgs=K1 tier=q t=1800 | funcs: Short::{from_str_bytes (accept+reject), TryFrom<&[u8]>, store_into_bytes, store_into_str_bytes, compare_with_config, max_distance, clear_checksum, accessors} | bound: all inputs of the fixed sizes: allocator never reached, no panic | stubs: allocator entry points -> assert!(false)
c18_hash_ops!(c18_hash_ops_short, Short, 15, 32, 36);
//@ h=c18_hash_ops_normall props=C18,C17 cfgs=K1 tier=q t=2400 | funcs: NormalWithLongChecksum parse/store/compare/clear/accessors | bound: all inputs of the fixed sizes | stubs: allocator entry points -> assert!(false)
c18_hash_ops!(c18_hash_ops_normall, NormalWithLongChecksum, 37, 76, 80);
//@ h=c18_hash_ops_long props=C18,C17 cfgs=K1 tier=t t=3000 | funcs: Long parse/store/compare/clear/accessors | bound: all inputs of the fixed sizes | stubs: allocator entry points -> assert!(false)
c18_hash_ops!(c18_hash_ops_long, Long, 67, 136, 140);

// C09 (and the length-related clauses of C10): child module of `crate::length`.
#![allow(missing_docs)]
#![allow(clippy::all)]
#![allow(unused_imports)]

use super::*;
use crate::verif::refmodel::*;

const MAXLEN: u32 = 4_224_281_216;

//@ h=c09_new_total props=C09 cfgs=K1,K10 tier=q t=120 | funcs: FuzzyHashLengthEncoding::new, TryFrom<u32> | bound: all 2^32 lengths; binary search unwind 10 (slice <= 170 => <= 8 halvings, unwinding assertion on)
#[kani::proof]
#[kani::unwind(10)]
fn c09_new_total() {
    let len: u32 = kani::any();
    let r = FuzzyHashLengthEncoding::new(len);
    assert!(r.is_some() == (len <= MAXLEN));
    let t = FuzzyHashLengthEncoding::try_from(len);
    match t {
        Ok(v) => assert!(r.is_some() && r.unwrap().value() == v.value()),
        Err(e) => assert!(r.is_none() && e == ParseError::LengthIsTooLarge),
    }
    assert!(MAX == MAXLEN);
    kani::cover!(r.is_none());
    kani::cover!(r.is_some());
}

//@ h=c09_code_def props=C09,C01,C11 cfgs=K1,K10 tier=q t=180 | funcs: FuzzyHashLengthEncoding::new, ENCODED_INDICES_BY_LEADING_ZEROS, TOP_VALUE_BY_ENCODING | bound: all lengths <= MAX x all 170 codes (symbolic code index): code(len)==i <=> ref_lo(i) <= len <= REF_TOPVAL[i]; unwind 10
#[kani::proof]
#[kani::unwind(10)]
fn c09_code_def() {
    let len: u32 = kani::any();
    kani::assume(len <= MAXLEN);
    let code = FuzzyHashLengthEncoding::new(len).unwrap().value() as usize;
    assert!(code < 170);
    let i: usize = kani::any();
    kani::assume(i < 170);
    assert!((code == i) == ref_len_code_is(len, i));
    kani::cover!(code == 169);
    kani::cover!(code == 0 && len == 1);
}

//@ h=c09_monotone props=C09 cfgs=K1 tier=q t=180 | funcs: FuzzyHashLengthEncoding::new | bound: all pairs len1 <= len2 <= MAX; unwind 10
#[kani::proof]
#[kani::unwind(10)]
fn c09_monotone() {
    let a: u32 = kani::any();
    let b: u32 = kani::any();
    kani::assume(a <= b && b <= MAXLEN);
    let ca = FuzzyHashLengthEncoding::new(a).unwrap().value();
    let cb = FuzzyHashLengthEncoding::new(b).unwrap().value();
    assert!(ca <= cb);
    kani::cover!(ca < cb);
}

//@ h=c09_range props=C09 cfgs=K1 tier=q t=120 | funcs: FuzzyHashLengthEncoding::range, is_valid, from_raw | bound: all 256 codes
#[kani::proof]
#[kani::unwind(10)]
fn c09_range() {
    let c: u8 = kani::any();
    let e = FuzzyHashLengthEncoding::from_raw(c);
    assert!(e.value() == c);
    let r = e.range();
    assert!(r.is_some() == e.is_valid());
    assert!(e.is_valid() == (c < 170));
    if let Some(r) = r.clone() {
        assert!(*r.start() == ref_len_lo(c as usize));
        assert!(*r.end() == REF_TOPVAL[c as usize]);
        assert!(r.start() <= r.end());
        if c == 0 {
            assert!(*r.start() == 0);
        }
        if c == 169 {
            assert!(*r.end() == MAXLEN);
        }
        if c < 169 {
            let n = FuzzyHashLengthEncoding::from_raw(c + 1).range().unwrap();
            assert!(*n.start() == *r.end() + 1);
        }
    }
    kani::cover!(r.is_none());
    kani::cover!(c == 169 && r.is_some());
}

//@ h=c09_range_contains props=C09 cfgs=K1 tier=q t=180 | funcs: FuzzyHashLengthEncoding::new, range | bound: all lengths <= MAX; unwind 10
#[kani::proof]
#[kani::unwind(10)]
fn c09_range_contains() {
    let len: u32 = kani::any();
    kani::assume(len <= MAXLEN);
    let e = FuzzyHashLengthEncoding::new(len).unwrap();
    let r = e.range().unwrap();
    assert!(*r.start() <= len && len <= *r.end());
    // "exactly the lengths that encode to it": any other length in the range gets the same code
    let other: u32 = kani::any();
    kani::assume(*r.start() <= other && other <= *r.end());
    assert!(FuzzyHashLengthEncoding::new(other).unwrap().value() == e.value());
    kani::cover!(other != len);
}

//@ h=c09_table props=C09 cfgs=K1 tier=q t=120 | funcs: TOP_VALUE_BY_ENCODING, ENCODED_INDICES_BY_LEADING_ZEROS, MAX | bound: all 170 table entries and all 33 leading-zero classes (symbolic index) against the pinned reference copy
#[kani::proof]
#[kani::unwind(10)]
fn c09_table() {
    let i: usize = kani::any();
    kani::assume(i < 170);
    assert!(TOP_VALUE_BY_ENCODING[i] == REF_TOPVAL[i]);
    if i > 0 {
        assert!(REF_TOPVAL[i - 1] < REF_TOPVAL[i]);
    }
    assert!(ENCODED_VALUE_SIZE == 170);
    let z: usize = kani::any();
    kani::assume(z < 32);
    // the invariants handed to the optimiser under feature `unsafe`
    let bottom = ENCODED_INDICES_BY_LEADING_ZEROS[z + 1];
    let top = ENCODED_INDICES_BY_LEADING_ZEROS[z];
    assert!(bottom <= top && top <= 170);
    // every table entry with z leading zeros lies in [bottom, top)
    if (REF_TOPVAL[i].leading_zeros() as usize) == z {
        assert!(bottom <= i && i < top);
    }
}

//@ h=c09_validity props=C10,C09 cfgs=K1 tier=q t=120 | funcs: DataLengthValidity::new::<48|128|256>, is_err, is_err_on | bound: all 2^32 lengths x 3 bucket sizes x 2 modes
#[kani::proof]
#[kani::unwind(4)]
fn c09_validity() {
    let len: u32 = kani::any();
    let conservative: bool = kani::any();
    let mode = if conservative {
        DataLengthProcessingMode::Conservative
    } else {
        DataLengthProcessingMode::Optimistic
    };
    let which: u8 = kani::any();
    kani::assume(which < 3);
    let (v, n) = match which {
        0 => (DataLengthValidity::new::<48>(len), 48usize),
        1 => (DataLengthValidity::new::<128>(len), 128),
        _ => (DataLengthValidity::new::<256>(len), 256),
    };
    let cls = ref_validity(len, n);
    let expect = match cls {
        0 => DataLengthValidity::TooSmall,
        1 => DataLengthValidity::ValidWhenOptimistic,
        2 => DataLengthValidity::Valid,
        _ => DataLengthValidity::TooLarge,
    };
    assert!(v == expect);
    assert!(v.is_err() == (cls == 0 || cls == 3));
    assert!(v.is_err_on(mode) == (cls == 0 || cls == 3 || (cls == 1 && conservative)));
    // published constants
    assert!(<LengthProcessingInfo<48> as ConstrainedLengthProcessingInfo>::MIN == 10);
    assert!(<LengthProcessingInfo<48> as ConstrainedLengthProcessingInfo>::MIN_CONSERVATIVE == 10);
    assert!(<LengthProcessingInfo<128> as ConstrainedLengthProcessingInfo>::MIN == 50);
    assert!(<LengthProcessingInfo<128> as ConstrainedLengthProcessingInfo>::MIN_CONSERVATIVE == 128);
    assert!(<LengthProcessingInfo<256> as ConstrainedLengthProcessingInfo>::MIN == 50);
    assert!(<LengthProcessingInfo<256> as ConstrainedLengthProcessingInfo>::MIN_CONSERVATIVE == 128);
    assert!(<LengthProcessingInfo<48> as ConstrainedLengthProcessingInfo>::MAX == MAXLEN);
    assert!(<LengthProcessingInfo<128> as ConstrainedLengthProcessingInfo>::MAX == MAXLEN);
    assert!(<LengthProcessingInfo<256> as ConstrainedLengthProcessingInfo>::MAX == MAXLEN);
    kani::cover!(cls == 1 && which == 2);
    kani::cover!(cls == 3);
}

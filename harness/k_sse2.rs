// C02/C07: SSE2 body-distance backend (child module of dist_body::x86_sse2; K6/K9 only).
#![allow(missing_docs)]
#![allow(clippy::all)]
#![allow(unused_imports)]
#![allow(unsafe_code)]
#![allow(static_mut_refs)]

use super::*;
use crate::verif::refmodel::*;

//@ h=k_sse2_lane props=C02,C07,C17,C08 cfgs=K6 tier=q t=900 | funcs: x86_sse2::packed_distance_as_u16x8 | bound: all pairs of 128-bit vectors, symbolic lane: 16-bit lane l == reference distance of exactly bytes 2l, 2l+1 (no leak between lanes), <= 48 | stubs: packed add/sub/mullo intrinsics -> lane-wise wrapping models (Intel pseudo-code)
#[kani::proof]
#[kani::stub(core::arch::x86_64::_mm_add_epi32, crate::verif::simdstubs::m_add_epi32)]
#[kani::stub(core::arch::x86_64::_mm_sub_epi32, crate::verif::simdstubs::m_sub_epi32)]
#[kani::stub(core::arch::x86_64::_mm_add_epi16, crate::verif::simdstubs::m_add_epi16)]
#[kani::stub(core::arch::x86_64::_mm_add_epi8, crate::verif::simdstubs::m_add_epi8)]
#[kani::stub(core::arch::x86_64::_mm_mullo_epi32, crate::verif::simdstubs::m_mullo_epi32)]
#[kani::unwind(36)]
fn k_sse2_lane() {
    let xb: [u8; 16] = kani::any();
    let yb: [u8; 16] = kani::any();
    let r: [u16; 8] = unsafe {
        let x: __m128i = core::mem::transmute(xb);
        let y: __m128i = core::mem::transmute(yb);
        core::mem::transmute(packed_distance_as_u16x8(x, y))
    };
    let l: usize = kani::any();
    kani::assume(l < 8);
    let e = ref_dist_body_byte(xb[2 * l], yb[2 * l]) + ref_dist_body_byte(xb[2 * l + 1], yb[2 * l + 1]);
    assert!(r[l] as u32 == e);
    assert!(r[l] <= 48);
    kani::cover!(r[l] == 48);
}

// Structure lemmas: the kernel is replaced by a logging stub that returns harness-chosen lane
// values bounded by the lane maximum proved in k_sse2_lane; the function must load the right
// chunks in order and return the plain sum of all lanes (so a lane-width overflow in the
// horizontal sum would be found).  Two copies of the real kernel in one query do not finish.
const KCAP: usize = 4;
static mut KLOG: [([u8; 16], [u8; 16]); KCAP] = [([0; 16], [0; 16]); KCAP];
static mut KRET: [[u16; 8]; KCAP] = [[0; 8]; KCAP];
static mut KN: usize = 0;

unsafe fn stub_kernel(x: __m128i, y: __m128i) -> __m128i {
    let i = KN;
    assert!(i < KCAP);
    KLOG[i] = (core::mem::transmute(x), core::mem::transmute(y));
    KN = i + 1;
    core::mem::transmute(KRET[i])
}

macro_rules! simd_struct {
    ($name:ident, $f:ident, $n:literal, $chunks:literal) => {
        #[kani::proof]
        #[kani::stub(core::arch::x86_64::_mm_add_epi32, crate::verif::simdstubs::m_add_epi32)]
        #[kani::stub(core::arch::x86_64::_mm_sub_epi32, crate::verif::simdstubs::m_sub_epi32)]
        #[kani::stub(core::arch::x86_64::_mm_add_epi16, crate::verif::simdstubs::m_add_epi16)]
        #[kani::stub(core::arch::x86_64::_mm_add_epi8, crate::verif::simdstubs::m_add_epi8)]
        #[kani::stub(core::arch::x86_64::_mm_mullo_epi32, crate::verif::simdstubs::m_mullo_epi32)]
        #[kani::unwind(20)]
        #[kani::stub(super::packed_distance_as_u16x8, stub_kernel)]
        fn $name() {
            let a: [u8; $n] = kani::any();
            let b: [u8; $n] = kani::any();
            let ret: [[u16; 8]; KCAP] = kani::any();
            let mut c = 0;
            while c < KCAP {
                let mut l = 0;
                while l < 8 {
                    kani::assume(ret[c][l] <= 48);
                    l += 1;
                }
                c += 1;
            }
            unsafe {
                KRET = ret;
                KN = 0;
            }
            let d = unsafe { $f(&a, &b) };
            let n = unsafe { KN };
            if n == 0 {
                // native replay (no stub): compare with the reference directly
                let mut s = 0u32;
                let mut i = 0;
                while i < $n {
                    s += ref_dist_body_byte(a[i], b[i]);
                    i += 1;
                }
                assert!(d == s);
                return;
            }
            assert!(n == $chunks);
            // the sum of all lanes, associated the way the horizontal sum is written (chunks
            // accumulated per lane, then halves folded): equivalence of two differently
            // associated adder trees is SAT-hard although the formula is tiny
            let mut v = [0u32; 8];
            let mut c = 0;
            while c < $chunks {
                let (lx, ly) = unsafe { KLOG[c] };
                let j: usize = kani::any();
                kani::assume(j < 16);
                assert!(lx[j] == a[16 * c + j] && ly[j] == b[16 * c + j]);
                let mut l = 0;
                while l < 8 {
                    v[l] += ret[c][l] as u32;
                    l += 1;
                }
                c += 1;
            }
            let mut n = 8;
            while n > 2 {
                let mut i = 0;
                while i < n / 2 {
                    v[i] += v[i + n / 2];
                    i += 1;
                }
                n /= 2;
            }
            let s = v[0] + v[1];
            assert!(d == s);
            kani::cover!(d == $chunks * 8 * 48);
        }
    };
}
//@ h=k_sse2_d32 props=C02,C07,C17,C08 cfgs=K6 tier=q t=900 native=native_k_sse2_extremes | funcs: x86_sse2::distance_32 (unaligned loads, accumulation, horizontal sum) | bound: all pairs of 32-byte bodies and ALL lane values up to the lane maximum 48: loads exactly the consecutive 16-byte chunks of both bodies in order, result == sum of all lanes | stubs: packed add/sub/mullo intrinsics -> lane-wise wrapping models (Intel pseudo-code); the SSE2 kernel -> logging stub returning arbitrary bounded lanes (kernel itself: k_sse2_lane)
simd_struct!(k_sse2_d32, distance_32, 32, 2);
//@ h=k_sse2_d64 props=C02,C07,C17,C08 cfgs=K6 tier=q t=900 native=native_k_sse2_extremes | funcs: x86_sse2::distance_64 | bound: all pairs of 64-byte bodies and all bounded lane values: right chunks in order, result == sum of all lanes (no lane overflow) | stubs: packed add/sub/mullo intrinsics -> lane-wise wrapping models (Intel pseudo-code); the SSE2 kernel -> logging stub
simd_struct!(k_sse2_d64, distance_64, 64, 4);

/// Native confirmation for the structure lemmas (their counterexamples are lane values of the
/// stubbed kernel, which do not determine concrete bodies): extreme and half-extreme bodies
/// through the real functions against the reference sum.
#[cfg(test)]
#[test]
fn native_k_sse2_extremes() {
    if !std::arch::is_x86_feature_detected!("sse2") {
        return;
    }
    let pats: [(u8, u8); 6] = [(0x00, 0xff), (0xff, 0x00), (0x00, 0xaa), (0x55, 0xff), (0x00, 0x00), (0x12, 0xed)];
    for &(x, y) in pats.iter() {
        for split in [0usize, 8, 16, 24, 32, 48, 64] {
            let mut a32 = [x; 32];
            let mut b32 = [y; 32];
            let mut a64 = [x; 64];
            let mut b64 = [y; 64];
            // bytes from `split` on are equal (distance 0 there)
            for i in split.min(32)..32 {
                a32[i] = 0x3c;
                b32[i] = 0x3c;
            }
            for i in split..64 {
                a64[i] = 0x3c;
                b64[i] = 0x3c;
            }
            let r32: u32 = (0..32).map(|i| ref_dist_body_byte(a32[i], b32[i])).sum();
            let r64: u32 = (0..64).map(|i| ref_dist_body_byte(a64[i], b64[i])).sum();
            assert_eq!(unsafe { distance_32(&a32, &b32) }, r32);
            assert_eq!(unsafe { distance_64(&a64, &b64) }, r64);
        }
    }
}

// C02/C07: SSE2 body-distance backend (child module of dist_body::x86_sse2; K6/K9 only).
#![allow(missing_docs)]
#![allow(clippy::all)]
#![allow(unused_imports)]
#![allow(unsafe_code)]

use super::*;
use crate::verif::refmodel::*;

//@ h=k_sse2_lane props=C02,C07,C17 cfgs=K6 tier=q t=900 | funcs: x86_sse2::packed_distance_as_u16x8 | bound: all pairs of 128-bit vectors, symbolic lane: 16-bit lane l == reference distance of exactly bytes 2l, 2l+1 (no leak between lanes), <= 48
#[kani::proof]
#[kani::unwind(4)]
fn k_sse2_lane() {
    let xb: [u8; 16] = kani::any();
    let yb: [u8; 16] = kani::any();
    let r: [u16; 8] = unsafe {
        let x: __m128i = core::mem::transmute(xb);
        let y: __m128i = core::mem::transmute(yb);
        core::mem::transmute(packed_distance_as_u16x8(x, y))
    };
    let l: usize = kani::any();
    kani::assume(l < 8);
    let e = ref_dist_body_byte(xb[2 * l], yb[2 * l]) + ref_dist_body_byte(xb[2 * l + 1], yb[2 * l + 1]);
    assert!(r[l] as u32 == e);
    assert!(r[l] <= 48);
    kani::cover!(r[l] == 48);
}

fn lanes(xb: &[u8], yb: &[u8]) -> [u16; 8] {
    let mut x = [0u8; 16];
    let mut y = [0u8; 16];
    x.copy_from_slice(xb);
    y.copy_from_slice(yb);
    unsafe {
        core::mem::transmute(packed_distance_as_u16x8(core::mem::transmute(x), core::mem::transmute(y)))
    }
}

//@ h=k_sse2_d32 props=C02,C07,C17 cfgs=K6 tier=q t=1800 | funcs: x86_sse2::distance_32 (unaligned loads, horizontal sum) | bound: all pairs of 32-byte bodies: == sum of all 16 lanes of the real kernel on the two halves
#[kani::proof]
#[kani::unwind(20)]
fn k_sse2_d32() {
    let a: [u8; 32] = kani::any();
    let b: [u8; 32] = kani::any();
    let d = unsafe { distance_32(&a, &b) };
    let p1 = lanes(&a[..16], &b[..16]);
    let p2 = lanes(&a[16..], &b[16..]);
    let mut s = 0u32;
    let mut i = 0;
    while i < 8 {
        s += p1[i] as u32 + p2[i] as u32;
        i += 1;
    }
    assert!(d == s);
}

//@ h=k_sse2_d64 props=C02,C07,C17 cfgs=K6 tier=q t=2400 | funcs: x86_sse2::distance_64 | bound: all pairs of 64-byte bodies: == sum of all 32 lanes of the real kernel on the four quarters (16-bit lane accumulation cannot overflow)
#[kani::proof]
#[kani::unwind(20)]
fn k_sse2_d64() {
    let a: [u8; 64] = kani::any();
    let b: [u8; 64] = kani::any();
    let d = unsafe { distance_64(&a, &b) };
    let mut s = 0u32;
    let mut c = 0;
    while c < 4 {
        let p = lanes(&a[16 * c..16 * c + 16], &b[16 * c..16 * c + 16]);
        let mut i = 0;
        while i < 8 {
            s += p[i] as u32;
            i += 1;
        }
        c += 1;
    }
    assert!(d == s);
}

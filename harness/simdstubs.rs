// Wrapping models of the packed integer add / sub / mullo intrinsics (Intel SDM pseudo-code:
// lane-wise modular arithmetic).  Kani instruments stdarch's `simd_add/sub/mul` with an overflow
// check that is an assert FOLLOWED BY AN ASSUME, i.e. it would both raise a false alarm and
// silently drop every execution in which a lane wraps.  Every SIMD harness therefore replaces
// these intrinsics by the models below.
#![cfg(all(target_arch = "x86_64", feature = "opt-simd-body-comparison"))]
#![allow(missing_docs)]
#![allow(clippy::all)]
#![allow(unsafe_code)]
#![allow(dead_code)]

use core::arch::x86_64::*;
use core::mem::transmute;

macro_rules! lanewise {
    ($name:ident, $vec:ty, $lane:ty, $n:literal, $op:ident) => {
        pub(crate) fn $name(a: $vec, b: $vec) -> $vec {
            let a: [$lane; $n] = unsafe { transmute(a) };
            let b: [$lane; $n] = unsafe { transmute(b) };
            let mut r = [0 as $lane; $n];
            let mut i = 0;
            while i < $n {
                r[i] = a[i].$op(b[i]);
                i += 1;
            }
            unsafe { transmute(r) }
        }
    };
}
lanewise!(m_add_epi32, __m128i, u32, 4, wrapping_add);
lanewise!(m_sub_epi32, __m128i, u32, 4, wrapping_sub);
lanewise!(m_add_epi16, __m128i, u16, 8, wrapping_add);
lanewise!(m_add_epi8, __m128i, u8, 16, wrapping_add);
lanewise!(m_mullo_epi32, __m128i, u32, 4, wrapping_mul);
lanewise!(m256_add_epi32, __m256i, u32, 8, wrapping_add);
lanewise!(m256_sub_epi32, __m256i, u32, 8, wrapping_sub);
lanewise!(m256_mullo_epi32, __m256i, u32, 8, wrapping_mul);

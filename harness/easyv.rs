// C13: string comparison helpers == parse-then-compare (both sides real code).
#![allow(missing_docs)]
#![allow(clippy::all)]
#![allow(unused_imports)]
#![allow(unsafe_code)]

use crate::errors::{ParseError, ParseErrorSide};
use crate::hashes::{Normal, Short};
use crate::FuzzyHashType;
use core::str::FromStr;

macro_rules! c13 {
    ($name:ident, $ty:ty, $ll:literal, $rl:literal, $unw:literal, $default:literal) => {
        #[kani::proof]
        #[kani::unwind($unw)]
        fn $name() {
            let lb: [u8; $ll] = kani::any();
            let rb: [u8; $rl] = kani::any();
            let mut i = 0;
            while i < $ll {
                kani::assume(lb[i] < 128);
                i += 1;
            }
            let mut i = 0;
            while i < $rl {
                kani::assume(rb[i] < 128);
                i += 1;
            }
            let ls = unsafe { core::str::from_utf8_unchecked(&lb) };
            let rs = unsafe { core::str::from_utf8_unchecked(&rb) };
            let res = if $default {
                crate::compare(ls, rs)
            } else {
                crate::compare_with::<$ty>(ls, rs)
            };
            let pl = <$ty>::from_str(ls);
            let pr = <$ty>::from_str(rs);
            match (pl, pr) {
                (Ok(a), Ok(b)) => {
                    assert!(res == Ok(a.compare(&b)));
                }
                (Err(e), _) => {
                    let err = res.unwrap_err();
                    assert!(err.side() == ParseErrorSide::Left && err.inner_err() == e);
                }
                (Ok(_), Err(e)) => {
                    let err = res.unwrap_err();
                    assert!(err.side() == ParseErrorSide::Right && err.inner_err() == e);
                }
            }
            kani::cover!(res.is_ok() || $ll == 5 || $rl == 5 || $ll == 31);
            kani::cover!(res.is_err());
        }
    };
}
//@ h=c13_short_32_32 props=C13 cfgs=K1 tier=q t=1800 | funcs: tlsh::compare_with::<Short>, <Short as FromStr>::from_str, Short::compare, ParseErrorEither::{side, inner_err} | bound: all pairs of ASCII strings of lengths (32, 32): result == match (parse l, parse r) | assume: bytes < 128 (&str must be UTF-8)
c13!(c13_short_32_32, Short, 32, 32, 36, false);
//@ h=c13_short_30_32 props=C13 cfgs=K1 tier=q t=1800 | funcs: tlsh::compare_with::<Short> | bound: all pairs of ASCII strings of lengths (30, 32) (prefix on one side only) | assume: bytes < 128
c13!(c13_short_30_32, Short, 30, 32, 36, false);
//@ h=c13_short_32_30 props=C13 cfgs=K1 tier=q t=1800 | funcs: tlsh::compare_with::<Short> | bound: lengths (32, 30) | assume: bytes < 128
c13!(c13_short_32_30, Short, 32, 30, 36, false);
//@ h=c13_short_30_30 props=C13 cfgs=K1 tier=t t=1800 | funcs: tlsh::compare_with::<Short> | bound: lengths (30, 30) | assume: bytes < 128
c13!(c13_short_30_30, Short, 30, 30, 36, false);
//@ h=c13_short_31_32 props=C13 cfgs=K1 tier=q t=900 | funcs: tlsh::compare_with::<Short> | bound: lengths (31, 32): left error wins | assume: bytes < 128
c13!(c13_short_31_32, Short, 31, 32, 36, false);
//@ h=c13_short_32_5 props=C13 cfgs=K1 tier=q t=900 | funcs: tlsh::compare_with::<Short> | bound: lengths (32, 5): right error unless left fails | assume: bytes < 128
c13!(c13_short_32_5, Short, 32, 5, 36, false);
//@ h=c13_normal_72_70 props=C13 cfgs=K1 tier=t t=3000 | funcs: tlsh::compare (Tlsh = Normal) | bound: all pairs of ASCII strings of lengths (72, 70) | assume: bytes < 128
c13!(c13_normal_72_70, Normal, 72, 70, 76, true);
//@ h=c13_normal_72_5 props=C13 cfgs=K1 tier=q t=1200 | funcs: tlsh::compare (Tlsh = Normal) | bound: lengths (72, 5) | assume: bytes < 128
c13!(c13_normal_72_5, Normal, 72, 5, 76, true);

// C02/C08: header part distances against the reference, and the top-level sum.
#![allow(missing_docs)]
#![allow(clippy::all)]
#![allow(unused_imports)]
#![allow(dead_code)]

use crate::compare::dist_checksum::{distance_1, distance_3};
use crate::compare::utils::distance_on_ring_mod;
use crate::compare::{dist_length, dist_qratios, ComparisonConfiguration};
use crate::hash::body::FuzzyHashBody;
use crate::hash::checksum::FuzzyHashChecksum;
use crate::hash::qratios::FuzzyHashQRatios;
use crate::hashes::{Long, LongWithLongChecksum, Normal, NormalWithLongChecksum, Short};
use crate::length::FuzzyHashLengthEncoding;
use crate::verif::refmodel::*;
use crate::FuzzyHashType;

//@ h=cmp_qratios props=C02,C08,C07 cfgs=K0,K1,K2 tier=q t=300 | funcs: dist_qratios::distance (naive / 16x16 table / 256x256 table, one per configuration), FuzzyHashQRatios::compare | bound: all 2^16 pairs of Q-ratio bytes: == reference; symmetric; <= 168; 0 iff equal
#[kani::proof]
#[kani::unwind(4)]
fn cmp_qratios() {
    let a: u8 = kani::any();
    let b: u8 = kani::any();
    let d = dist_qratios::distance(a, b);
    assert!(d == ref_dist_qratios(a, b));
    assert!(d == dist_qratios::distance(b, a));
    assert!(d <= 168 && dist_qratios::MAX_DISTANCE == 168 && FuzzyHashQRatios::MAX_DISTANCE == 168);
    assert!((d == 0) == (a == b));
    assert!(FuzzyHashQRatios::from_raw(a).compare(&FuzzyHashQRatios::from_raw(b)) == d);
    kani::cover!(d == 168);
}

//@ h=cmp_length props=C02,C08,C07 cfgs=K0,K1 tier=q t=300 | funcs: dist_length::distance (naive / 256-entry table), FuzzyHashLengthEncoding::compare | bound: all 2^16 pairs of length codes: == reference; symmetric; <= 1536; 0 iff equal
#[kani::proof]
#[kani::unwind(4)]
fn cmp_length() {
    let a: u8 = kani::any();
    let b: u8 = kani::any();
    let d = dist_length::distance(a, b);
    assert!(d == ref_dist_length(a, b));
    assert!(d == dist_length::distance(b, a));
    assert!(d <= 1536 && dist_length::MAX_DISTANCE == 1536 && FuzzyHashLengthEncoding::MAX_DISTANCE == 1536);
    assert!((d == 0) == (a == b));
    assert!(FuzzyHashLengthEncoding::from_raw(a).compare(&FuzzyHashLengthEncoding::from_raw(b)) == d);
    kani::cover!(d == 1536);
}

//@ h=cmp_ring props=C02 cfgs=K1 tier=q t=300 | funcs: compare::utils::distance_on_ring_mod | bound: n=16 with x,y<16 and n=0 (256) with all x,y
#[kani::proof]
#[kani::unwind(4)]
fn cmp_ring() {
    let x: u8 = kani::any();
    let y: u8 = kani::any();
    assert!(distance_on_ring_mod(x, y, 0) as u32 == ref_mod_diff(x as u32, y as u32, 256));
    if x < 16 && y < 16 {
        assert!(distance_on_ring_mod(x, y, 16) as u32 == ref_mod_diff(x as u32, y as u32, 16));
    }
}

//@ h=cmp_checksum props=C02,C08 cfgs=K1 tier=q t=300 | funcs: dist_checksum::distance_1, distance_3 | bound: all pairs of 1- and 3-byte checksums: == number of differing bytes; symmetric
#[kani::proof]
#[kani::unwind(6)]
fn cmp_checksum() {
    let a: [u8; 3] = kani::any();
    let b: [u8; 3] = kani::any();
    let e = (a[0] != b[0]) as u32 + (a[1] != b[1]) as u32 + (a[2] != b[2]) as u32;
    assert!(distance_3(a, b) == e);
    assert!(distance_3(b, a) == e);
    assert!(distance_1([a[0]], [b[0]]) == (a[0] != b[0]) as u32);
    assert!(distance_1([b[0]], [a[0]]) == (a[0] != b[0]) as u32);
    kani::cover!(e == 3);
}

fn sym_mode() -> ComparisonConfiguration {
    if kani::any() {
        ComparisonConfiguration::Default
    } else {
        ComparisonConfiguration::NoLength
    }
}

// top level: the distance is the sum of the four part distances (real code on both sides)
macro_rules! c02_sum {
    ($name:ident, $ty:ty, $ck:literal, $n:literal, $bodymax:literal, $unw:literal) => {
        #[kani::proof]
        #[kani::unwind($unw)]
        fn $name() {
            let ab: [u8; $n] = kani::any();
            let bb: [u8; $n] = kani::any();
            let a = <$ty>::try_from(&ab).unwrap();
            let b = <$ty>::try_from(&bb).unwrap();
            let mode = sym_mode();
            let d = a.compare_with_config(&b, mode);
            let body = a.body().compare(b.body());
            let ck = a.checksum().compare(b.checksum());
            let q = a.qratios().compare(b.qratios());
            let l = a.length().compare(b.length());
            let with_len = mode == ComparisonConfiguration::Default;
            assert!(d == body + ck + q + if with_len { l } else { 0 });
            if with_len {
                assert!(a.compare(&b) == d);
            }
            assert!(<$ty>::max_distance(mode) == $bodymax + $ck + 168 + if with_len { 1536 } else { 0 });
            // header parts are exactly the reference functions of the header bytes
            assert!(q == ref_dist_qratios(ab[$ck + 1], bb[$ck + 1]));
            assert!(l == ref_dist_length(ab[$ck], bb[$ck]));
            let mut e = 0u32;
            let mut i = 0;
            while i < $ck {
                if ab[i] != bb[i] {
                    e += 1;
                }
                i += 1;
            }
            assert!(ck == e);
        }
    };
}
//@ h=c02_sum_short props=C02,C08 cfgs=K0,K2 tier=q t=900 | funcs: Short::{compare_with_config, compare, max_distance}, part compare() | bound: all pairs of values x 2 modes: distance == body + checksum + Q ratio (+ length) part distances; header parts == reference
c02_sum!(c02_sum_short, Short, 1, 15, 288, 20);
//@ h=c02_sum_normal props=C02,C08 cfgs=K0 tier=q t=1200 | funcs: Normal::{compare_with_config, compare, max_distance} | bound: all pairs x 2 modes
c02_sum!(c02_sum_normal, Normal, 1, 35, 768, 40);
//@ h=c02_sum_normall props=C02,C08 cfgs=K0 tier=q t=1200 | funcs: NormalWithLongChecksum::{compare_with_config, compare, max_distance} | bound: all pairs x 2 modes
c02_sum!(c02_sum_normall, NormalWithLongChecksum, 3, 37, 768, 40);
//@ h=c02_sum_long props=C02,C08 cfgs=K0 tier=q t=1800 | funcs: Long::{compare_with_config, compare, max_distance} | bound: all pairs x 2 modes
c02_sum!(c02_sum_long, Long, 1, 67, 1536, 72);
//@ h=c02_sum_longl props=C02,C08 cfgs=K0 tier=q t=1800 | funcs: LongWithLongChecksum::{compare_with_config, compare, max_distance} | bound: all pairs x 2 modes
c02_sum!(c02_sum_longl, LongWithLongChecksum, 3, 69, 1536, 72);

// C08 directly on the public API
macro_rules! c08_direct {
    ($name:ident, $ty:ty, $ck:literal, $n:literal, $unw:literal) => {
        #[kani::proof]
        #[kani::unwind($unw)]
        fn $name() {
            let ab: [u8; $n] = kani::any();
            let bb: [u8; $n] = kani::any();
            let a = <$ty>::try_from(&ab).unwrap();
            let b = <$ty>::try_from(&bb).unwrap();
            let mode = sym_mode();
            let d = a.compare_with_config(&b, mode);
            assert!(a.compare_with_config(&a, mode) == 0);
            assert!(d == b.compare_with_config(&a, mode));
            assert!(d <= <$ty>::max_distance(mode));
            if mode == ComparisonConfiguration::Default && d == 0 {
                let j: usize = kani::any();
                kani::assume(j < $n);
                assert!(ab[j] == bb[j]);
                assert!(a == b);
            }
            kani::cover!(d == <$ty>::max_distance(mode) && mode == ComparisonConfiguration::Default);
            kani::cover!(d == <$ty>::max_distance(mode) && mode == ComparisonConfiguration::NoLength);
        }
    };
}
//@ h=c08_direct_short props=C08 cfgs=K0 tier=q t=1800 | funcs: Short::{compare_with_config, max_distance} | bound: all pairs x 2 modes: d(a,a)=0, symmetric, <= max_distance, max attained (cover witness), d_Default=0 => equal
c08_direct!(c08_direct_short, Short, 1, 15, 20);
//@ h=c08_direct_normal props=C08 cfgs=K0 tier=q t=1800 | funcs: Normal::{compare_with_config, max_distance} | bound: all pairs x 2 modes
c08_direct!(c08_direct_normal, Normal, 1, 35, 40);
//@ h=c08_direct_longl props=C08 cfgs=K0 tier=q t=2400 | funcs: LongWithLongChecksum::{compare_with_config, max_distance} | bound: all pairs x 2 modes
c08_direct!(c08_direct_longl, LongWithLongChecksum, 3, 69, 72);

macro_rules! c08_rel {
    ($name:ident, $ty:ty, $ck:literal, $n:literal, $unw:literal) => {
        #[kani::proof]
        #[kani::unwind($unw)]
        fn $name() {
            let ab: [u8; $n] = kani::any();
            let bb: [u8; $n] = kani::any();
            let a = <$ty>::try_from(&ab).unwrap();
            let b = <$ty>::try_from(&bb).unwrap();
            // same body: the remaining relations only involve the header parts
            let j: usize = kani::any();
            kani::assume(j < $n);
            let dd = a.compare_with_config(&b, ComparisonConfiguration::Default);
            let dn = a.compare_with_config(&b, ComparisonConfiguration::NoLength);
            assert!(dd == dn + a.length().compare(b.length()));
            assert!(dd >= dn);
            let (mut ac, mut bc) = (a, b);
            ac.clear_checksum();
            bc.clear_checksum();
            let mode = sym_mode();
            let d = a.compare_with_config(&b, mode);
            let dc = ac.compare_with_config(&bc, mode);
            assert!(dc == d - a.checksum().compare(b.checksum()));
        }
    };
}
//@ h=c08_rel_short props=C08 cfgs=K0 tier=q t=1800 | funcs: Short::{compare_with_config, clear_checksum} | bound: all pairs: d_Default == d_NoLength + length distance; d(clear a, clear b) == d - checksum distance
c08_rel!(c08_rel_short, Short, 1, 15, 20);
//@ h=c08_rel_normall props=C08 cfgs=K0 tier=q t=1800 | funcs: NormalWithLongChecksum::{compare_with_config, clear_checksum} | bound: all pairs
c08_rel!(c08_rel_normall, NormalWithLongChecksum, 3, 37, 40);
//@ h=c08_rel_long props=C08 cfgs=K0 tier=q t=2400 | funcs: Long::{compare_with_config, clear_checksum} | bound: all pairs
c08_rel!(c08_rel_long, Long, 1, 67, 72);

// part-level facts that compose C08 for the larger variants (with c02_sum_*, k_* and c06_bin_*):
// every part distance is symmetric, bounded by its MAX_DISTANCE, zero iff equal, and the maxima
// are attained independently (parts are independent fields of the value).

// Root of the verification harness modules that need only crate-visible items.
// (Harnesses that need module-private items live in files injected as child modules, see
// run/vf.py INJECT.)
#![allow(missing_docs)]
#![allow(clippy::missing_docs_in_private_items)]
#![allow(clippy::all)]
#![allow(unused_imports)]
#![allow(dead_code)]

pub(crate) mod refmodel;
pub(crate) mod hashv;
pub(crate) mod cmpv;
pub(crate) mod genv;
pub(crate) mod easyv;
pub(crate) mod serdev;
pub(crate) mod allocv;
pub(crate) mod simdstubs;
pub(crate) mod hexsimd;

// C02/C07: which backend the public body-distance entry points select (child of dist_body).
#![allow(missing_docs)]
#![allow(clippy::all)]
#![allow(unused_imports)]

use super::*;

macro_rules! dispatch {
    ($name:ident, $f:ident, $n:literal) => {
        #[cfg(not(feature = "opt-simd-body-comparison"))]
        #[kani::proof]
        #[kani::unwind(12)]
        fn $name() {
            let a: [u8; $n] = kani::any();
            let b: [u8; $n] = kani::any();
            assert!($f(&a, &b) == pseudo_simd_64::$f(&a, &b));
            assert!(usize::BITS >= 64);
        }
    };
}
//@ h=body_dispatch_12 props=C02,C07 cfgs=K0,K1 tier=q t=900 | funcs: dist_body::distance_12 | bound: all pairs: the entry point equals the 64-bit pseudo-SIMD backend (no SIMD feature)
dispatch!(body_dispatch_12, distance_12, 12);
//@ h=body_dispatch_32 props=C02,C07 cfgs=K0,K1 tier=q t=900 | funcs: dist_body::distance_32 | bound: all pairs: the entry point equals the 64-bit pseudo-SIMD backend
dispatch!(body_dispatch_32, distance_32, 32);
//@ h=body_dispatch_64 props=C02,C07 cfgs=K0,K1 tier=q t=1500 | funcs: dist_body::distance_64 | bound: all pairs: the entry point equals the 64-bit pseudo-SIMD backend
dispatch!(body_dispatch_64, distance_64, 64);

//@ h=body_consts props=C08,C02 cfgs=K1 tier=q t=60 | funcs: MAX_DISTANCE_SHORT/NORMAL/LONG, BODY_OUTLIER_VALUE | bound: constants
#[kani::proof]
#[kani::unwind(2)]
fn body_consts() {
    assert!(BODY_OUTLIER_VALUE == 6);
    assert!(MAX_DISTANCE_SHORT == 48 * 6);
    assert!(MAX_DISTANCE_NORMAL == 128 * 6);
    assert!(MAX_DISTANCE_LONG == 256 * 6);
}

// K6: the run-time dispatch ladder (OnceLock + CPU detection).  The detection queries are
// replaced by nondeterministic booleans and the four candidate backends by tagging stubs, so the
// query decides, for EVERY detection outcome, which backend the entry point calls and with which
// arguments; that each backend computes the reference distance is the subject of k_*.
#[cfg(all(feature = "opt-simd-body-comparison", feature = "detect-features"))]
mod ladder {
    #![allow(unsafe_code)]
    #![allow(static_mut_refs)]
    use super::super::*;

    static mut DET: [bool; 3] = [false; 3]; // avx2, sse4.1, sse2
    static mut CALLED: u8 = 0;
    static mut ARGS: (usize, usize) = (0, 0);
    fn det_avx2() -> bool {
        unsafe { DET[0] }
    }
    fn det_sse41() -> bool {
        unsafe { DET[1] }
    }
    fn det_sse2() -> bool {
        unsafe { DET[2] }
    }
    macro_rules! tag {
        ($name:ident, $n:literal, $tag:literal) => {
            unsafe fn $name(a: &[u8; $n], b: &[u8; $n]) -> u32 {
                CALLED = $tag;
                ARGS = (a.as_ptr() as usize, b.as_ptr() as usize);
                1000 + $tag as u32
            }
        };
    }
    macro_rules! tag_safe {
        ($name:ident, $n:literal, $tag:literal) => {
            fn $name(a: &[u8; $n], b: &[u8; $n]) -> u32 {
                unsafe {
                    CALLED = $tag;
                    ARGS = (a.as_ptr() as usize, b.as_ptr() as usize);
                }
                1000 + $tag as u32
            }
        };
    }
    tag!(t_avx2_32, 32, 1);
    tag!(t_sse41_32, 32, 2);
    tag!(t_sse2_32, 32, 3);
    tag_safe!(t_p64_32, 32, 4);
    tag!(t_avx2_64, 64, 1);
    tag!(t_sse41_64, 64, 2);
    tag!(t_sse2_64, 64, 3);
    tag_safe!(t_p64_64, 64, 4);

    macro_rules! ladder {
        ($name:ident, $f:ident, $n:literal, $s1:ident, $s2:ident, $s3:ident, $s4:ident) => {
            #[kani::proof]
            #[kani::unwind(8)]
            #[kani::stub(std_detect::detect::__is_feature_detected::avx2, det_avx2)]
            #[kani::stub(std_detect::detect::__is_feature_detected::sse4_1, det_sse41)]
            #[kani::stub(std_detect::detect::__is_feature_detected::sse2, det_sse2)]
            #[kani::stub(super::super::x86_avx2::$f, $s1)]
            #[kani::stub(super::super::x86_sse4_1::$f, $s2)]
            #[kani::stub(super::super::x86_sse2::$f, $s3)]
            fn $name() {
                let det: [bool; 3] = kani::any();
                unsafe {
                    DET = det;
                    CALLED = 0;
                }
                let a: [u8; $n] = kani::any();
                let b: [u8; $n] = kani::any();
                let d = $f(&a, &b);
                // (on x86_64 `is_x86_feature_detected!("sse2")` is true at compile time, so the pseudo-SIMD
                // fallback is unreachable there and the run-time answer for sse2 is never consulted)
                let expect: u8 = if det[0] { 1 } else if det[1] { 2 } else { 3 };
                let (called, args) = unsafe { (CALLED, ARGS) };
                if expect == 4 {
                    // no SIMD backend: the (unstubbed) 64-bit pseudo-SIMD function itself
                    assert!(called == 0);
                    assert!(d == super::super::pseudo_simd_64::$f(&a, &b));
                } else {
                    assert!(called == expect);
                    assert!(d == 1000 + expect as u32);
                    assert!(args == (a.as_ptr() as usize, b.as_ptr() as usize));
                }
                // a second call goes through the cached choice: same backend
                unsafe {
                    CALLED = 0;
                    DET = [false; 3];
                }
                let d2 = $f(&a, &b);
                assert!(d2 == d && unsafe { CALLED } == if expect == 4 { 0 } else { expect });
                kani::cover!(expect == 3 && !det[2]);
                kani::cover!(expect == 2);
            }
        };
    }
    //@ h=body_ladder_32 props=C07,C02 cfgs=K6 tier=q t=900 submod=ladder | funcs: dist_body::distance_32 with run-time dispatch (OnceLock::get_or_init + detection ladder avx2 > sse4.1 > sse2; sse2 is a compile-time fact on x86_64) | bound: every outcome of the three CPU-feature queries x all argument pairs: exactly the backend the ladder prescribes is called, with the caller's arguments, its result is returned, and the cached choice is reused by a later call | stubs: std_detect::detect::__is_feature_detected::{avx2,sse4_1,sse2} -> harness-chosen booleans; the three SIMD backend functions -> tagging stubs (their correctness: k_* lemmas)
    ladder!(body_ladder_32, distance_32, 32, t_avx2_32, t_sse41_32, t_sse2_32, t_p64_32);
    //@ h=body_ladder_64 props=C07,C02 cfgs=K6 tier=q t=900 submod=ladder | funcs: dist_body::distance_64 with run-time dispatch | bound: as body_ladder_32 | stubs: as body_ladder_32
    ladder!(body_ladder_64, distance_64, 64, t_avx2_64, t_sse41_64, t_sse2_64, t_p64_64);
}

// K6s: static backend selection (feature `simd` without `detect-features`).  With the default
// x86_64 target features (sse2 only) the entry points must be the SSE2 backend.
#[cfg(all(feature = "opt-simd-body-comparison", not(feature = "detect-features"),
          target_arch = "x86_64", target_feature = "sse2", not(target_feature = "sse4.1")))]
mod static_sel {
    #![allow(unsafe_code)]
    #![allow(static_mut_refs)]
    use super::super::*;
    static mut CALLED: u8 = 0;
    unsafe fn t32(a: &[u8; 32], b: &[u8; 32]) -> u32 {
        CALLED = 1;
        let _ = (a, b);
        4242
    }
    unsafe fn t64(a: &[u8; 64], b: &[u8; 64]) -> u32 {
        CALLED = 2;
        let _ = (a, b);
        4343
    }
    //@ h=body_static props=C02,C07,C08 cfgs=K6s tier=q t=600 submod=static_sel | funcs: dist_body::distance_32/64 with compile-time backend selection (feature simd without detect-features, default x86_64 target features) | bound: all argument pairs: the entry points call the SSE2 backend (whose correctness is k_sse2_*) | stubs: x86_sse2::distance_32/64 -> tagging stubs
    #[kani::proof]
    #[kani::unwind(4)]
    #[kani::stub(super::super::x86_sse2::distance_32, t32)]
    #[kani::stub(super::super::x86_sse2::distance_64, t64)]
    fn body_static() {
        let a: [u8; 32] = kani::any();
        let b: [u8; 32] = kani::any();
        unsafe {
            CALLED = 0;
        }
        assert!(distance_32(&a, &b) == 4242 && unsafe { CALLED } == 1);
        let c: [u8; 64] = kani::any();
        let d: [u8; 64] = kani::any();
        assert!(distance_64(&c, &d) == 4343 && unsafe { CALLED } == 2);
    }
}

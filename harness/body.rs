// C02/C07: which backend the public body-distance entry points select (child of dist_body).
#![allow(missing_docs)]
#![allow(clippy::all)]
#![allow(unused_imports)]

use super::*;

macro_rules! dispatch {
    ($name:ident, $f:ident, $n:literal) => {
        #[cfg(not(feature = "opt-simd-body-comparison"))]
        #[kani::proof]
        #[kani::unwind(12)]
        fn $name() {
            let a: [u8; $n] = kani::any();
            let b: [u8; $n] = kani::any();
            assert!($f(&a, &b) == pseudo_simd_64::$f(&a, &b));
            assert!(usize::BITS >= 64);
        }
    };
}
//@ h=body_dispatch_12 props=C02,C07 cfgs=K0,K1 tier=q t=900 | funcs: dist_body::distance_12 | bound: all pairs: the entry point equals the 64-bit pseudo-SIMD backend (no SIMD feature)
dispatch!(body_dispatch_12, distance_12, 12);
//@ h=body_dispatch_32 props=C02,C07 cfgs=K0,K1 tier=q t=900 | funcs: dist_body::distance_32 | bound: all pairs: the entry point equals the 64-bit pseudo-SIMD backend
dispatch!(body_dispatch_32, distance_32, 32);
//@ h=body_dispatch_64 props=C02,C07 cfgs=K0,K1 tier=q t=1500 | funcs: dist_body::distance_64 | bound: all pairs: the entry point equals the 64-bit pseudo-SIMD backend
dispatch!(body_dispatch_64, distance_64, 64);

//@ h=body_consts props=C08,C02 cfgs=K1 tier=q t=60 | funcs: MAX_DISTANCE_SHORT/NORMAL/LONG, BODY_OUTLIER_VALUE | bound: constants
#[kani::proof]
#[kani::unwind(2)]
fn body_consts() {
    assert!(BODY_OUTLIER_VALUE == 6);
    assert!(MAX_DISTANCE_SHORT == 48 * 6);
    assert!(MAX_DISTANCE_NORMAL == 128 * 6);
    assert!(MAX_DISTANCE_LONG == 256 * 6);
}

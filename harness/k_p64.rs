// C02/C08 kernel + structure lemmas for the 64-bit pseudo-SIMD body distance (child module).
#![allow(missing_docs)]
#![allow(clippy::all)]
#![allow(unused_imports)]

use super::*;
use crate::verif::refmodel::*;

//@ h=k_p64_kernel props=C02,C08,C07 cfgs=K0 tier=q t=900 | funcs: pseudo_simd_64::sub_distance | bound: all 2^128 pairs of 64-bit chunks, per symbolic byte lane pair: total == sum of the 32 reference dibit distances; symmetric; <= 192; 0 iff equal
#[kani::proof]
#[kani::unwind(10)]
fn k_p64_kernel() {
    let x: u64 = kani::any();
    let y: u64 = kani::any();
    let d = sub_distance(x, y);
    let xb = x.to_le_bytes();
    let yb = y.to_le_bytes();
    let mut s = 0u32;
    let mut i = 0;
    while i < 8 {
        s += ref_dist_body_byte(xb[i], yb[i]);
        i += 1;
    }
    assert!(d == s);
    assert!(d <= 192);
    assert!((d == 0) == (x == y));
    kani::cover!(d == 192);
}

//@ h=k_p64_sym props=C08 cfgs=K0 tier=q t=900 | funcs: pseudo_simd_64::sub_distance | bound: all pairs: sub_distance(x,y) == sub_distance(y,x)
#[kani::proof]
#[kani::unwind(4)]
fn k_p64_sym() {
    let x: u64 = kani::any();
    let y: u64 = kani::any();
    assert!(sub_distance(x, y) == sub_distance(y, x));
}

macro_rules! p64_struct {
    ($name:ident, $f:ident, $n:literal, $unw:literal) => {
        #[kani::proof]
        #[kani::unwind($unw)]
        fn $name() {
            let a: [u8; $n] = kani::any();
            let b: [u8; $n] = kani::any();
            let d = $f(&a, &b);
            let mut s = 0u32;
            let mut i = 0;
            while i < $n / 8 {
                let mut xa = [0u8; 8];
                let mut ya = [0u8; 8];
                let mut j = 0;
                while j < 8 {
                    xa[j] = a[8 * i + j];
                    ya[j] = b[8 * i + j];
                    j += 1;
                }
                s += sub_distance(u64::from_le_bytes(xa), u64::from_le_bytes(ya));
                i += 1;
            }
            assert!(d == s);
        }
    };
}
//@ h=k_p64_d32 props=C02,C07,C08 cfgs=K0 tier=q t=900 | funcs: pseudo_simd_64::distance_32 | bound: all pairs of 32-byte bodies: == sum of the real kernel over 4 chunks
p64_struct!(k_p64_d32, distance_32, 32, 10);
//@ h=k_p64_d64 props=C02,C07,C08 cfgs=K0 tier=q t=1500 | funcs: pseudo_simd_64::distance_64 | bound: all pairs of 64-byte bodies: == sum of the real kernel over 8 chunks
p64_struct!(k_p64_d64, distance_64, 64, 10);

//@ h=k_p64_d12 props=C02,C07,C08 cfgs=K0 tier=q t=900 | funcs: pseudo_simd_64::distance_12 | bound: all pairs of 12-byte bodies: == 64-bit kernel on bytes 0..8 + 32-bit kernel on bytes 8..12
#[kani::proof]
#[kani::unwind(10)]
fn k_p64_d12() {
    let a: [u8; 12] = kani::any();
    let b: [u8; 12] = kani::any();
    let d = distance_12(&a, &b);
    let x = u64::from_le_bytes([a[0], a[1], a[2], a[3], a[4], a[5], a[6], a[7]]);
    let y = u64::from_le_bytes([b[0], b[1], b[2], b[3], b[4], b[5], b[6], b[7]]);
    let x2 = u32::from_le_bytes([a[8], a[9], a[10], a[11]]);
    let y2 = u32::from_le_bytes([b[8], b[9], b[10], b[11]]);
    assert!(d == sub_distance(x, y) + super::super::pseudo_simd_32::sub_distance(x2, y2));
}

// Contract models of the two functions of the external `hex-simd` crate that fast-tlsh calls with
// the default `simd` feature (body digits).  The crate itself (vsimd kernels, runtime CPU
// dispatch) is outside the encoding; what is verified is fast-tlsh's USE of it, against the
// documented behaviour: `encode` panics unless `dst.len() / 2 >= src.len()` and writes exactly
// 2*src.len() digits of the requested case at the start of `dst`; `decode` returns Err for an
// odd length or any non-hexadecimal byte (either case accepted), panics unless
// `dst.len() >= src.len() / 2`, and writes src.len()/2 bytes.
#![cfg(feature = "opt-simd-convert-hex")]
#![allow(missing_docs)]
#![allow(clippy::all)]
#![allow(unsafe_code)]
#![allow(dead_code)]

use crate::verif::refmodel::*;
// aliases: `hex_simd::encode` / `decode` name both a private module and a public function; Kani's
// stub resolver picks the module when given the direct path
pub(crate) use hex_simd::decode as hs_decode;
pub(crate) use hex_simd::encode as hs_encode;

pub(crate) fn stub_hex_encode<'d>(
    src: &[u8],
    mut dst: hex_simd::Out<'d, [u8]>,
    case: hex_simd::AsciiCase,
) -> &'d mut [u8] {
    assert!(dst.len() / 2 >= src.len());
    let p: *mut u8 = dst.as_mut_ptr().cast();
    let lower = matches!(case, hex_simd::AsciiCase::Lower);
    let mut i = 0;
    while i < src.len() {
        let (hi, lo) = (ref_hex_upper(src[i] >> 4), ref_hex_upper(src[i] & 15));
        unsafe {
            *p.add(2 * i) = if lower && hi >= b'A' { hi + 32 } else { hi };
            *p.add(2 * i + 1) = if lower && lo >= b'A' { lo + 32 } else { lo };
        }
        i += 1;
    }
    unsafe { core::slice::from_raw_parts_mut(p, src.len() * 2) }
}

pub(crate) fn stub_hex_decode<'d>(
    src: &[u8],
    mut dst: hex_simd::Out<'d, [u8]>,
) -> Result<&'d mut [u8], hex_simd::Error> {
    if src.len() % 2 != 0 {
        return Err(hex_simd::decoded_length(1).unwrap_err());
    }
    assert!(dst.len() >= src.len() / 2);
    let p: *mut u8 = dst.as_mut_ptr().cast();
    let mut i = 0;
    while i < src.len() / 2 {
        match (ref_hex_val(src[2 * i]), ref_hex_val(src[2 * i + 1])) {
            (Some(a), Some(b)) => unsafe {
                *p.add(i) = (a << 4) | b;
            },
            _ => return Err(hex_simd::decoded_length(1).unwrap_err()),
        }
        i += 1;
    }
    Ok(unsafe { core::slice::from_raw_parts_mut(p, src.len() / 2) })
}

// C01/C07/C15: Pearson tables and the two bucket-mapping functions against the reference chain
// (child module of crate::pearson, for the private tables).
#![allow(missing_docs)]
#![allow(clippy::all)]
#![allow(unused_imports)]

use super::*;
use crate::verif::refmodel::*;

//@ h=p_tables props=C01,C07,C15 cfgs=K0,K1 tier=q t=300 | funcs: SUBST_TABLE, SUBST_TABLE_48, SUBST_TABLE_DOUBLE (K1), init, update, update_double, final_256, final_48 | bound: every table entry (symbolic indices) against the independent reference copy
#[kani::proof]
#[kani::unwind(4)]
fn p_tables() {
    let i: u8 = kani::any();
    let j: u8 = kani::any();
    assert!(SUBST_TABLE[i as usize] == REF_PEARSON[i as usize]);
    assert!(SUBST_TABLE_48[i as usize] == ref_fold_48(REF_PEARSON[i as usize]));
    assert!(SUBST_TABLE_48[i as usize] <= 48);
    assert!(INITIAL_STATE == 0);
    assert!(init(i) == ref_p(i));
    assert!(update(i, j) == ref_p(i ^ j));
    assert!(final_256(i, j) == ref_p(i ^ j));
    assert!(final_48(i, j) == ref_fold_48(ref_p(i ^ j)));
    let s: u8 = kani::any();
    assert!(update_double(s, i, j) == ref_p(ref_p(s ^ i) ^ j));
    #[cfg(feature = "opt-pearson-table-double")]
    {
        assert!(SUBST_TABLE_DOUBLE[j as usize][i as usize] == ref_p(ref_p(i) ^ j));
    }
}

//@ h=p_map256 props=C01,C07 cfgs=K0,K1 tier=q t=900 | funcs: tlsh_b_mapping_256 | bound: all 2^32 (salt, b1, b2, b3): == T[T[T[T[salt]^b1]^b2]^b3] over the reference table
#[kani::proof]
#[kani::unwind(4)]
fn p_map256() {
    let (a, b, c, d): (u8, u8, u8, u8) = (kani::any(), kani::any(), kani::any(), kani::any());
    assert!(tlsh_b_mapping_256(a, b, c, d) == ref_map_256(a, b, c, d));
}

//@ h=p_map48 props=C01,C07,C15 cfgs=K0,K1 tier=q t=900 | funcs: tlsh_b_mapping_48 | bound: all 2^32 inputs: == fold48(reference chain), always <= 48
#[kani::proof]
#[kani::unwind(4)]
fn p_map48() {
    let (a, b, c, d): (u8, u8, u8, u8) = (kani::any(), kani::any(), kani::any(), kani::any());
    let r = tlsh_b_mapping_48(a, b, c, d);
    assert!(r == ref_map_48(a, b, c, d));
    assert!(r <= 48);
    kani::cover!(r == 48);
}

// C01/C07: bucket aggregation (child module of generate::bucket_aggregation).
#![allow(missing_docs)]
#![allow(clippy::all)]
#![allow(unused_imports)]
#![allow(unsafe_code)]

use super::*;
use crate::verif::refmodel::*;

//@ h=agg_quartile props=C01,C07 cfgs=K1 tier=q t=120 | funcs: naive::get_quartile | bound: all (value, q1<=q2<=q3) in u32^4: == reference (strict `>`)
#[kani::proof]
#[kani::unwind(4)]
fn agg_quartile() {
    let (v, q1, q2, q3): (u32, u32, u32, u32) = (kani::any(), kani::any(), kani::any(), kani::any());
    kani::assume(q1 <= q2 && q2 <= q3);
    assert!(naive::get_quartile(v, q1, q2, q3) == ref_quartile(v, q1, q2, q3));
}

macro_rules! agg_entry {
    ($name:ident, $f:ident, $nb:literal, $sb:literal, $unw:literal) => {
        #[kani::proof]
        #[kani::unwind($unw)]
        fn $name() {
            let b: [u32; $nb] = kani::any();
            let (q1, q2, q3): (u32, u32, u32) = (kani::any(), kani::any(), kani::any());
            kani::assume(q1 <= q2 && q2 <= q3);
            let mut out: [u8; $sb] = kani::any();
            naive::$f(&mut out, &b, q1, q2, q3);
            let k: usize = kani::any();
            kani::assume(k < $sb);
            let base = 4 * ($sb - 1 - k);
            let e = ref_quartile(b[base], q1, q2, q3)
                | (ref_quartile(b[base + 1], q1, q2, q3) << 2)
                | (ref_quartile(b[base + 2], q1, q2, q3) << 4)
                | (ref_quartile(b[base + 3], q1, q2, q3) << 6);
            assert!(out[k] == e);
        }
    };
}
//@ h=agg_naive_48 props=C01,C07 cfgs=K1 tier=q t=600 | funcs: naive::aggregate_48 | bound: all 48 u32 counters x all q1<=q2<=q3: byte k == packed reference dibits of buckets 4(11-k)..; first bucket in the low bits of the last byte
agg_entry!(agg_naive_48, aggregate_48, 48, 12, 52);
//@ h=agg_naive_128 props=C01,C07 cfgs=K1 tier=q t=900 | funcs: naive::aggregate_128 | bound: all 128 counters x all ordered quartiles
agg_entry!(agg_naive_128, aggregate_128, 128, 32, 132);
//@ h=agg_naive_256 props=C01,C07 cfgs=K1 tier=q t=1200 | funcs: naive::aggregate_256 | bound: all 256 counters x all ordered quartiles
agg_entry!(agg_naive_256, aggregate_256, 256, 64, 260);

// the public entry points without SIMD are the naive functions
macro_rules! agg_dispatch {
    ($name:ident, $f:ident, $nb:literal, $sb:literal, $unw:literal) => {
        #[cfg(not(feature = "opt-simd-bucket-aggregation"))]
        #[kani::proof]
        #[kani::unwind($unw)]
        fn $name() {
            let b: [u32; $nb] = kani::any();
            let (q1, q2, q3): (u32, u32, u32) = (kani::any(), kani::any(), kani::any());
            kani::assume(q1 <= q2 && q2 <= q3);
            let mut out = [0u8; $sb];
            let mut out2 = [0u8; $sb];
            $f(&mut out, &b, q1, q2, q3);
            naive::$f(&mut out2, &b, q1, q2, q3);
            let k: usize = kani::any();
            kani::assume(k < $sb);
            assert!(out[k] == out2[k]);
        }
    };
}
//@ h=agg_dispatch_48 props=C01,C07 cfgs=K0,K1 tier=q t=600 | funcs: bucket_aggregation::aggregate_48 | bound: all inputs: entry point == naive implementation (no SIMD feature)
agg_dispatch!(agg_dispatch_48, aggregate_48, 48, 12, 52);
//@ h=agg_dispatch_128 props=C01,C07 cfgs=K0,K1 tier=q t=900 | funcs: bucket_aggregation::aggregate_128 | bound: all inputs
agg_dispatch!(agg_dispatch_128, aggregate_128, 128, 32, 132);
//@ h=agg_dispatch_256 props=C01,C07 cfgs=K1 tier=t t=1200 | funcs: bucket_aggregation::aggregate_256 | bound: all inputs
agg_dispatch!(agg_dispatch_256, aggregate_256, 256, 64, 260);

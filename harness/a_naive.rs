// C01/C07: bucket aggregation (child module of generate::bucket_aggregation).
#![allow(missing_docs)]
#![allow(clippy::all)]
#![allow(unused_imports)]
#![allow(unsafe_code)]

use super::*;
use crate::verif::refmodel::*;

//@ h=agg_quartile props=C01,C07 cfgs=K1 tier=q t=120 | funcs: naive::get_quartile | bound: all (value, q1<=q2<=q3) in u32^4: == reference (strict `>`)
#[kani::proof]
#[kani::unwind(4)]
fn agg_quartile() {
    let (v, q1, q2, q3): (u32, u32, u32, u32) = (kani::any(), kani::any(), kani::any(), kani::any());
    kani::assume(q1 <= q2 && q2 <= q3);
    assert!(naive::get_quartile(v, q1, q2, q3) == ref_quartile(v, q1, q2, q3));
}

macro_rules! agg_entry {
    ($name:ident, $f:ident, $nb:literal, $sb:literal, $unw:literal) => {
        #[kani::proof]
        #[kani::unwind($unw)]
        fn $name() {
            let b: [u32; $nb] = kani::any();
            let (q1, q2, q3): (u32, u32, u32) = (kani::any(), kani::any(), kani::any());
            kani::assume(q1 <= q2 && q2 <= q3);
            let mut out: [u8; $sb] = kani::any();
            naive::$f(&mut out, &b, q1, q2, q3);
            let k: usize = kani::any();
            kani::assume(k < $sb);
            let base = 4 * ($sb - 1 - k);
            let e = ref_quartile(b[base], q1, q2, q3)
                | (ref_quartile(b[base + 1], q1, q2, q3) << 2)
                | (ref_quartile(b[base + 2], q1, q2, q3) << 4)
                | (ref_quartile(b[base + 3], q1, q2, q3) << 6);
            assert!(out[k] == e);
        }
    };
}
//@ h=agg_naive_48 props=C01,C07 cfgs=K1 tier=q t=600 | funcs: naive::aggregate_48 | bound: all 48 u32 counters x all q1<=q2<=q3: byte k == packed reference dibits of buckets 4(11-k)..; first bucket in the low bits of the last byte
agg_entry!(agg_naive_48, aggregate_48, 48, 12, 52);
//@ h=agg_naive_128 props=C01,C07 cfgs=K1 tier=q t=900 | funcs: naive::aggregate_128 | bound: all 128 counters x all ordered quartiles
agg_entry!(agg_naive_128, aggregate_128, 128, 32, 132);
//@ h=agg_naive_256 props=C01,C07 cfgs=K1 tier=t t=2400 | funcs: naive::aggregate_256 | bound: all 256 counters x all ordered quartiles
agg_entry!(agg_naive_256, aggregate_256, 256, 64, 260);

// the public entry points without SIMD are the naive functions
macro_rules! agg_dispatch {
    ($name:ident, $f:ident, $nb:literal, $sb:literal, $unw:literal) => {
        #[cfg(not(feature = "opt-simd-bucket-aggregation"))]
        #[kani::proof]
        #[kani::unwind($unw)]
        fn $name() {
            let b: [u32; $nb] = kani::any();
            let (q1, q2, q3): (u32, u32, u32) = (kani::any(), kani::any(), kani::any());
            kani::assume(q1 <= q2 && q2 <= q3);
            let mut out = [0u8; $sb];
            let mut out2 = [0u8; $sb];
            $f(&mut out, &b, q1, q2, q3);
            naive::$f(&mut out2, &b, q1, q2, q3);
            let k: usize = kani::any();
            kani::assume(k < $sb);
            assert!(out[k] == out2[k]);
        }
    };
}
//@ h=agg_dispatch_48 props=C01,C07 cfgs=K0,K1 tier=q t=600 | funcs: bucket_aggregation::aggregate_48 | bound: all inputs: entry point == naive implementation (no SIMD feature)
agg_dispatch!(agg_dispatch_48, aggregate_48, 48, 12, 52);
//@ h=agg_dispatch_128 props=C01,C07 cfgs=K1 tier=t t=1800 | funcs: bucket_aggregation::aggregate_128 | bound: all inputs
agg_dispatch!(agg_dispatch_128, aggregate_128, 128, 32, 132);
//@ h=agg_dispatch_256 props=C01,C07 cfgs=K1 tier=t t=1200 | funcs: bucket_aggregation::aggregate_256 | bound: all inputs
agg_dispatch!(agg_dispatch_256, aggregate_256, 256, 64, 260);

// K6: the run-time dispatch ladder of the aggregation entry points (avx2 > ssse3 > sse2; on
// x86_64 sse2 is a compile-time fact, so the naive fallback is unreachable there).
#[cfg(all(feature = "opt-simd-bucket-aggregation", feature = "detect-features"))]
mod ladder {
    #![allow(unsafe_code)]
    #![allow(static_mut_refs)]
    use super::super::*;

    static mut DET: [bool; 3] = [false; 3]; // avx2, ssse3, sse2
    static mut CALLED: u8 = 0;
    static mut ARGS: (usize, usize, u32, u32, u32) = (0, 0, 0, 0, 0);
    fn det_avx2() -> bool {
        unsafe { DET[0] }
    }
    fn det_ssse3() -> bool {
        unsafe { DET[1] }
    }
    fn det_sse2() -> bool {
        unsafe { DET[2] }
    }
    macro_rules! tag {
        ($name:ident, $sb:literal, $nb:literal, $tag:literal) => {
            unsafe fn $name(out: &mut [u8; $sb], b: &[u32; $nb], q1: u32, q2: u32, q3: u32) {
                CALLED = $tag;
                ARGS = (out.as_ptr() as usize, b.as_ptr() as usize, q1, q2, q3);
                out[0] = 0xA0 + $tag;
            }
        };
    }
    tag!(t_avx2_48, 12, 48, 1);
    tag!(t_ssse3_48, 12, 48, 2);
    tag!(t_sse2_48, 12, 48, 3);
    tag!(t_avx2_128, 32, 128, 1);
    tag!(t_ssse3_128, 32, 128, 2);
    tag!(t_sse2_128, 32, 128, 3);
    tag!(t_avx2_256, 64, 256, 1);
    tag!(t_ssse3_256, 64, 256, 2);
    tag!(t_sse2_256, 64, 256, 3);

    macro_rules! ladder {
        ($name:ident, $f:ident, $sb:literal, $nb:literal, $s1:ident, $s2:ident, $s3:ident) => {
            #[kani::proof]
            #[kani::unwind(8)]
            #[kani::stub(std_detect::detect::__is_feature_detected::avx2, det_avx2)]
            #[kani::stub(std_detect::detect::__is_feature_detected::ssse3, det_ssse3)]
            #[kani::stub(std_detect::detect::__is_feature_detected::sse2, det_sse2)]
            #[kani::stub(super::super::x86_avx2::$f, $s1)]
            #[kani::stub(super::super::x86_ssse3::$f, $s2)]
            #[kani::stub(super::super::x86_sse2::$f, $s3)]
            fn $name() {
                let det: [bool; 3] = kani::any();
                unsafe {
                    DET = det;
                    CALLED = 0;
                }
                let b: [u32; $nb] = kani::any();
                let (q1, q2, q3): (u32, u32, u32) = (kani::any(), kani::any(), kani::any());
                kani::assume(q1 <= q2 && q2 <= q3);
                let mut out = [0u8; $sb];
                $f(&mut out, &b, q1, q2, q3);
                let expect: u8 = if det[0] { 1 } else if det[1] { 2 } else { 3 };
                let (called, args) = unsafe { (CALLED, ARGS) };
                assert!(called == expect);
                assert!(out[0] == 0xA0 + expect);
                assert!(args == (out.as_ptr() as usize, b.as_ptr() as usize, q1, q2, q3));
                unsafe {
                    CALLED = 0;
                    DET = [false; 3];
                }
                $f(&mut out, &b, q1, q2, q3);
                assert!(unsafe { CALLED } == expect);
                kani::cover!(expect == 3 && !det[2]);
                kani::cover!(expect == 2);
            }
        };
    }
    //@ h=agg_ladder_48 props=C07,C01 cfgs=K6 tier=q t=900 submod=ladder | funcs: bucket_aggregation::aggregate_48 with run-time dispatch (OnceLock + detection ladder avx2 > ssse3 > sse2) | bound: every outcome of the CPU-feature queries x all arguments: exactly the prescribed backend is called with the caller's arguments; the cached choice is reused | stubs: std_detect::detect::__is_feature_detected::{avx2,ssse3,sse2} -> harness-chosen booleans; the three SIMD aggregation functions -> tagging stubs (their correctness: agg_* lemmas)
    ladder!(agg_ladder_48, aggregate_48, 12, 48, t_avx2_48, t_ssse3_48, t_sse2_48);
    //@ h=agg_ladder_128 props=C07,C01 cfgs=K6 tier=q t=900 submod=ladder | funcs: bucket_aggregation::aggregate_128 with run-time dispatch | bound: as agg_ladder_48 | stubs: as agg_ladder_48
    ladder!(agg_ladder_128, aggregate_128, 32, 128, t_avx2_128, t_ssse3_128, t_sse2_128);
    //@ h=agg_ladder_256 props=C07,C01 cfgs=K6 tier=q t=900 submod=ladder | funcs: bucket_aggregation::aggregate_256 with run-time dispatch | bound: as agg_ladder_48 | stubs: as agg_ladder_48
    ladder!(agg_ladder_256, aggregate_256, 64, 256, t_avx2_256, t_ssse3_256, t_sse2_256);
}

// K6s: static selection of the aggregation backend (SSE2 with the default x86_64 target features).
#[cfg(all(feature = "opt-simd-bucket-aggregation", not(feature = "detect-features"),
          target_arch = "x86_64", target_feature = "sse2", not(target_feature = "ssse3")))]
mod static_sel {
    #![allow(unsafe_code)]
    #![allow(static_mut_refs)]
    use super::super::*;
    static mut CALLED: u8 = 0;
    unsafe fn t48(out: &mut [u8; 12], _b: &[u32; 48], _q1: u32, _q2: u32, _q3: u32) {
        CALLED = 1;
        out[0] = 0xA1;
    }
    unsafe fn t128(out: &mut [u8; 32], _b: &[u32; 128], _q1: u32, _q2: u32, _q3: u32) {
        CALLED = 2;
        out[0] = 0xA2;
    }
    unsafe fn t256(out: &mut [u8; 64], _b: &[u32; 256], _q1: u32, _q2: u32, _q3: u32) {
        CALLED = 3;
        out[0] = 0xA3;
    }
    //@ h=agg_static props=C01,C07 cfgs=K6s tier=q t=600 submod=static_sel | funcs: bucket_aggregation::aggregate_48/128/256 with compile-time backend selection | bound: all arguments: the entry points call the SSE2 backend (whose correctness is agg_sse2_*) | stubs: x86_sse2::aggregate_* -> tagging stubs
    #[kani::proof]
    #[kani::unwind(4)]
    #[kani::stub(super::super::x86_sse2::aggregate_48, t48)]
    #[kani::stub(super::super::x86_sse2::aggregate_128, t128)]
    #[kani::stub(super::super::x86_sse2::aggregate_256, t256)]
    fn agg_static() {
        let (q1, q2, q3): (u32, u32, u32) = (kani::any(), kani::any(), kani::any());
        kani::assume(q1 <= q2 && q2 <= q3);
        let b48: [u32; 48] = kani::any();
        let mut o48 = [0u8; 12];
        aggregate_48(&mut o48, &b48, q1, q2, q3);
        assert!(o48[0] == 0xA1 && unsafe { CALLED } == 1);
        let b128: [u32; 128] = kani::any();
        let mut o128 = [0u8; 32];
        aggregate_128(&mut o128, &b128, q1, q2, q3);
        assert!(o128[0] == 0xA2 && unsafe { CALLED } == 2);
        let b256: [u32; 256] = kani::any();
        let mut o256 = [0u8; 64];
        aggregate_256(&mut o256, &b256, q1, q2, q3);
        assert!(o256[0] == 0xA3 && unsafe { CALLED } == 3);
    }
}

// C12/C17: the stream helper's read loop, with a scripted reader and a recording generator
// (child module of generate_easy_std: hash_stream_common is private).
#![allow(missing_docs)]
#![allow(clippy::all)]
#![allow(unused_imports)]
#![allow(unsafe_code)]
#![allow(dead_code)]

use super::*;
use crate::errors::GeneratorError;
use crate::generate::GeneratorOptions;
use crate::hashes::Short;
use crate::FuzzyHashType;
use std::io::{Error, ErrorKind};

const MAXSTEPS: usize = 4;

#[derive(Clone, Copy, PartialEq, Eq)]
enum Step {
    Deliver(usize),
    Interrupted,
    Hard(u8),
    Eof,
}

fn kind_of(k: u8) -> ErrorKind {
    match k {
        0 => ErrorKind::Other,
        1 => ErrorKind::UnexpectedEof,
        2 => ErrorKind::PermissionDenied,
        _ => ErrorKind::TimedOut,
    }
}

struct ScriptReader {
    script: [Step; MAXSTEPS],
    pos: usize,
    /// (pointer, length) of the buffer handed to each read
    bufs: [(usize, usize); MAXSTEPS + 1],
    tags: [(u8, u8); MAXSTEPS + 1],
    reads: usize,
}

impl Read for ScriptReader {
    fn read(&mut self, buf: &mut [u8]) -> std::io::Result<usize> {
        let step = if self.pos < MAXSTEPS { self.script[self.pos] } else { Step::Eof };
        if self.reads <= MAXSTEPS {
            self.bufs[self.reads] = (buf.as_ptr() as usize, buf.len());
        }
        self.reads += 1;
        self.pos += 1;
        match step {
            Step::Deliver(n) => {
                // honest reader: 1 <= n <= buf.len()
                assert!(n >= 1 && n <= buf.len());
                Ok(n)
            }
            Step::Interrupted => Err(Error::from(ErrorKind::Interrupted)),
            Step::Hard(k) => Err(Error::from(kind_of(k))),
            Step::Eof => Ok(0),
        }
    }
}

struct RecGen {
    updates: [(usize, usize, u8, u8); MAXSTEPS + 1],
    n_updates: usize,
    finalizes: usize,
    result_ok: bool,
    result_err: GeneratorError,
    hash: Short,
}

impl crate::GeneratorType for RecGen {
    type Output = Short;
    const IS_CHECKSUM_EFFECTIVE: bool = true;
    const MIN: u32 = 0;
    const MIN_CONSERVATIVE: u32 = 0;
    const MAX: u32 = 0;
    fn processed_len(&self) -> Option<u32> {
        None
    }
    #[cfg(test)]
    fn count_nonzero_buckets(&self) -> usize {
        0
    }
    fn update(&mut self, data: &[u8]) {
        if self.n_updates <= MAXSTEPS && !data.is_empty() {
            // contents are not read (symbolic-index accesses to the 1 MiB buffer exhaust CBMC's
            // memory); identity of the slice (same start, same length) is what is compared.
            self.updates[self.n_updates] = (data.as_ptr() as usize, data.len(), 0, 0);
        }
        self.n_updates += 1;
    }
    fn finalize_with_options(&self, o: &GeneratorOptions) -> Result<Short, GeneratorError> {
        // the helper must use the default options
        assert!(*o == GeneratorOptions::new());
        unsafe {
            FINALIZES += 1;
        }
        if self.result_ok {
            Ok(self.hash)
        } else {
            Err(self.result_err)
        }
    }
}
static mut FINALIZES: usize = 0;

fn sym_step() -> Step {
    let c: u8 = kani::any();
    kani::assume(c < 4);
    match c {
        0 => {
            let n: usize = kani::any();
            kani::assume(n >= 1 && n <= BUFFER_SIZE);
            Step::Deliver(n)
        }
        1 => Step::Interrupted,
        2 => {
            let k: u8 = kani::any();
            kani::assume(k < 4);
            Step::Hard(k)
        }
        _ => Step::Eof,
    }
}

fn sym_generr() -> GeneratorError {
    let c: u8 = kani::any();
    kani::assume(c < 4);
    match c {
        0 => GeneratorError::TooLargeInput,
        1 => GeneratorError::TooSmallInput,
        2 => GeneratorError::BucketsAreHalfEmpty,
        _ => GeneratorError::BucketsAreThreeQuarterEmpty,
    }
}

/// Runs the helper on `script` and checks the outcome against what the script means.
fn check_script(script: [Step; MAXSTEPS], result_ok: bool, result_err: GeneratorError, hb: [u8; 15]) {
    let mut rd = ScriptReader {
        script, pos: 0, bufs: [(0, 0); MAXSTEPS + 1], tags: [(0, 0); MAXSTEPS + 1], reads: 0,
    };
    let mut g = RecGen {
        updates: [(0, 0, 0, 0); MAXSTEPS + 1], n_updates: 0, finalizes: 0,
        result_ok, result_err, hash: Short::try_from(&hb).unwrap(),
    };
    unsafe {
        FINALIZES = 0;
    }
    let r = hash_stream_common(&mut g, &mut rd);
    // what the script means
    let mut expect_updates = 0usize;
    let mut hard: Option<u8> = None;
    let mut consumed_steps = 0usize;
    let mut i = 0;
    let mut ended = false;
    while i < MAXSTEPS {
        if !ended {
            consumed_steps += 1;
            match script[i] {
                Step::Deliver(n) => {
                    // update i received exactly the delivered prefix of the buffer
                    let u = g.updates[expect_updates];
                    assert!(u.1 == n);
                    assert!(u.0 == rd.bufs[i].0);
                    assert!(rd.bufs[i].1 == BUFFER_SIZE);
                    expect_updates += 1;
                }
                Step::Interrupted => {}
                Step::Hard(k) => {
                    hard = Some(k);
                    ended = true;
                }
                Step::Eof => {
                    ended = true;
                }
            }
        }
        i += 1;
    }
    if !ended {
        consumed_steps += 1; // the implicit EOF after the script
    }
    assert!(g.n_updates == expect_updates);
    assert!(rd.reads == consumed_steps);
    let fin = unsafe { FINALIZES };
    match hard {
        Some(k) => {
            assert!(fin == 0);
            match &r {
                Err(GeneratorOrIOError::IOError(e)) => assert!(e.kind() == kind_of(k)),
                _ => assert!(false),
            }
        }
        None => {
            assert!(fin == 1);
            match &r {
                Ok(h) => assert!(g.result_ok && *h == g.hash),
                Err(GeneratorOrIOError::GeneratorError(e)) => {
                    assert!(!g.result_ok && *e == g.result_err)
                }
                _ => assert!(false),
            }
        }
    }
    #[cfg(kani)]
    {
        kani::cover!(hard.is_some() && expect_updates == 2);
        kani::cover!(hard.is_none() && expect_updates == 4 && r.is_ok());
        kani::cover!(g.updates[0].1 == BUFFER_SIZE && expect_updates >= 1);
    }
    core::mem::forget(r);
}

macro_rules! c12_script {
    ($name:ident, $allow_intr:literal) => {
        #[kani::proof]
        #[kani::unwind(20)]
        fn $name() {
            let script = [sym_step(), sym_step(), sym_step(), sym_step()];
            if !$allow_intr {
                let mut i = 0;
                while i < MAXSTEPS {
                    kani::assume(script[i] != Step::Interrupted);
                    i += 1;
                }
            }
            check_script(script, kani::any(), sym_generr(), kani::any());
        }
    };
}
//@ h=c12_script props=C12,C17 cfgs=K1 tier=q t=1800 native=native_c12_scripts | funcs: generate_easy_std::hash_stream_common<R, G> (generic read loop), From<io::Error>/From<GeneratorError> for GeneratorOrIOError | bound: all reader scripts of <= 4 steps over {deliver n (1<=n<=1 MiB, symbolic), Interrupted, hard error of 4 kinds, EOF} + final EOF; recording generator with arbitrary finalize result; updates == delivered prefixes of the helper's buffer in order, one finalize with default options, first hard error returned as IOError | stubs: reader and generator are mocks (caller-supplied trait impls); buffer contents are not inspected
c12_script!(c12_script, true);
//@ h=c12_script_nointr props=C12 cfgs=K1 tier=q t=1800 native=native_c12_scripts | funcs: generate_easy_std::hash_stream_common | bound: as c12_script without Interrupted steps (isolates the transient-interruption clause) | stubs: mock reader/generator
c12_script!(c12_script_nointr, false);

/// Native confirmation used when Kani cannot emit a concrete playback test for these harnesses
/// (the counterexample trace contains the 1 MiB buffer): a handful of concrete scripts through the
/// same `check_script`.
#[cfg(test)]
#[test]
fn native_c12_scripts() {
    let hb = [7u8; 15];
    let e = GeneratorError::TooSmallInput;
    check_script([Step::Deliver(5), Step::Deliver(BUFFER_SIZE), Step::Eof, Step::Eof], true, e, hb);
    check_script([Step::Deliver(3), Step::Deliver(4), Step::Deliver(5), Step::Deliver(6)], true, e, hb);
    // every script of three steps over the eight kinds of step (+ EOF), both finalize outcomes
    let kinds = [
        Step::Deliver(3), Step::Deliver(BUFFER_SIZE), Step::Interrupted, Step::Hard(0),
        Step::Hard(1), Step::Hard(2), Step::Hard(3), Step::Eof,
    ];
    for a in kinds.iter() {
        for b in kinds.iter() {
            for c in kinds.iter() {
                check_script([*a, *b, *c, Step::Eof], true, e, hb);
                check_script([*a, *b, *c, Step::Eof], false, e, hb);
            }
        }
    }
}

/// A reader that lies about how much it read (contract-violating but safe code).
struct LyingReader {
    n: usize,
    done: bool,
}
impl Read for LyingReader {
    fn read(&mut self, _buf: &mut [u8]) -> std::io::Result<usize> {
        if self.done {
            Ok(0)
        } else {
            self.done = true;
            Ok(self.n)
        }
    }
}

//@ h=c17_lying_reader props=C17 cfgs=K1,K10 tier=q t=900 | funcs: generate_easy_std::hash_stream_common with a reader returning an arbitrary usize | bound: any claimed length: the only admissible failure is the slice-bounds panic (kani::should_panic fails on any non-panic failure such as reaching unreachable_unchecked) | stubs: mock reader/generator
#[kani::proof]
#[kani::unwind(4)]
#[kani::should_panic]
fn c17_lying_reader() {
    let mut rd = LyingReader { n: kani::any(), done: false };
    let hb: [u8; 15] = kani::any();
    let mut g = RecGen {
        updates: [(0, 0, 0, 0); MAXSTEPS + 1], n_updates: 0, finalizes: 0,
        result_ok: true, result_err: GeneratorError::TooSmallInput,
        hash: Short::try_from(&hb).unwrap(),
    };
    let r = hash_stream_common(&mut g, &mut rd);
    core::mem::forget(r);
}

//@ h=c17_lying_reader_big props=C17 cfgs=K1,K10 tier=q t=900 | funcs: generate_easy_std::hash_stream_common with a reader claiming more than the buffer | bound: any claimed length > 1 MiB: must end in a panic and nothing else | stubs: mock reader/generator
#[kani::proof]
#[kani::unwind(4)]
#[kani::should_panic]
fn c17_lying_reader_big() {
    let n: usize = kani::any();
    kani::assume(n > BUFFER_SIZE);
    let mut rd = LyingReader { n, done: false };
    let hb: [u8; 15] = kani::any();
    let mut g = RecGen {
        updates: [(0, 0, 0, 0); MAXSTEPS + 1], n_updates: 0, finalizes: 0,
        result_ok: true, result_err: GeneratorError::TooSmallInput,
        hash: Short::try_from(&hb).unwrap(),
    };
    let r = hash_stream_common(&mut g, &mut rd);
    core::mem::forget(r);
}

// C07: SSSE3 bucket aggregation (child module of bucket_aggregation::x86_ssse3; K6 only).
#![allow(missing_docs)]
#![allow(clippy::all)]
#![allow(unused_imports)]
#![allow(unsafe_code)]

use super::*;
use crate::verif::refmodel::*;

/// Intel pseudo-code of PSHUFB (LLVM intrinsic unsupported by Kani).
fn stub_shuffle_epi8(a: __m128i, b: __m128i) -> __m128i {
    let a: [u8; 16] = unsafe { core::mem::transmute(a) };
    let b: [u8; 16] = unsafe { core::mem::transmute(b) };
    let mut r = [0u8; 16];
    let mut i = 0;
    while i < 16 {
        r[i] = if b[i] & 0x80 != 0 { 0 } else { a[(b[i] & 0x0f) as usize] };
        i += 1;
    }
    unsafe { core::mem::transmute(r) }
}

//@ h=agg_ssse3_kernel props=C01,C07,C17 cfgs=K6 tier=q t=900 | funcs: x86_ssse3::sub_aggregation | bound: any 4 u32 counters x all q1<=q2<=q3: == packed reference dibits | stubs: _mm_shuffle_epi8 -> Intel pseudo-code
#[kani::proof]
#[kani::unwind(18)]
#[kani::stub(core::arch::x86_64::_mm_shuffle_epi8, stub_shuffle_epi8)]
fn agg_ssse3_kernel() {
    let b: [u32; 4] = kani::any();
    let (q1, q2, q3): (u32, u32, u32) = (kani::any(), kani::any(), kani::any());
    kani::assume(q1 <= q2 && q2 <= q3);
    let r = unsafe { sub_aggregation(&b, q1, q2, q3) };
    let e = ref_quartile(b[0], q1, q2, q3)
        | (ref_quartile(b[1], q1, q2, q3) << 2)
        | (ref_quartile(b[2], q1, q2, q3) << 4)
        | (ref_quartile(b[3], q1, q2, q3) << 6);
    assert!(r == e);
}

macro_rules! agg_struct {
    ($name:ident, $f:ident, $nb:literal, $sb:literal, $unw:literal) => {
        #[kani::proof]
        #[kani::unwind($unw)]
        #[kani::stub(core::arch::x86_64::_mm_shuffle_epi8, stub_shuffle_epi8)]
        fn $name() {
            let b: [u32; $nb] = kani::any();
            let (q1, q2, q3): (u32, u32, u32) = (kani::any(), kani::any(), kani::any());
            kani::assume(q1 <= q2 && q2 <= q3);
            let mut out: [u8; $sb] = kani::any();
            unsafe { $f(&mut out, &b, q1, q2, q3) };
            let k: usize = kani::any();
            kani::assume(k < $sb);
            let base = 4 * ($sb - 1 - k);
            assert!(out[k] == unsafe { sub_aggregation(&b[base..base + 4], q1, q2, q3) });
        }
    };
}
//@ h=agg_ssse3_48 props=C01,C07,C17 cfgs=K6 tier=q t=900 | funcs: x86_ssse3::aggregate_48 | bound: all inputs: byte k == real kernel on buckets 4(11-k).. | stubs: _mm_shuffle_epi8 pseudo-code
agg_struct!(agg_ssse3_48, aggregate_48, 48, 12, 52);
//@ h=agg_ssse3_128 props=C01,C07,C17 cfgs=K6 tier=t t=1800 | funcs: x86_ssse3::aggregate_128 | bound: all inputs | stubs: _mm_shuffle_epi8 pseudo-code
agg_struct!(agg_ssse3_128, aggregate_128, 128, 32, 132);
//@ h=agg_ssse3_256 props=C01,C07,C17 cfgs=K6 tier=t t=2400 | funcs: x86_ssse3::aggregate_256 | bound: all inputs | stubs: _mm_shuffle_epi8 pseudo-code
agg_struct!(agg_ssse3_256, aggregate_256, 256, 64, 260);

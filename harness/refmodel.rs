// Reference model for the TLSH algorithm, written the slow obvious way and with NO dependency on
// the crate under test.  Harnesses compare the real code against these definitions.
//
// Provenance of the two tables:
//  * REF_PEARSON: transcribed from memory of the published TLSH `v_table` (Pearson 1990 table);
//    all 256 entries agreed with the pinned commit (3c5a288) when this file was written.
//  * REF_TOPVAL: entries 0..=155 transcribed from memory of the published TLSH `topval`, entries
//    0..=21 additionally equal floor(1.5^(i+1)) / floor(657*1.3^(i-15)); entries 156..=169 are
//    pinned from commit 3c5a288 (my recollection of the tail was not exact); the last entry
//    4_224_281_216 is the maximum stated in the property text.
// A changed entry in /repo now disagrees with this independent copy instead of with itself.

#![allow(dead_code)]

pub const REF_PEARSON: [u8; 256] = [
    1, 87, 49, 12, 176, 178, 102, 166, 121, 193, 6, 84, 249, 230, 44, 163,
    14, 197, 213, 181, 161, 85, 218, 80, 64, 239, 24, 226, 236, 142, 38, 200,
    110, 177, 104, 103, 141, 253, 255, 50, 77, 101, 81, 18, 45, 96, 31, 222,
    25, 107, 190, 70, 86, 237, 240, 34, 72, 242, 20, 214, 244, 227, 149, 235,
    97, 234, 57, 22, 60, 250, 82, 175, 208, 5, 127, 199, 111, 62, 135, 248,
    174, 169, 211, 58, 66, 154, 106, 195, 245, 171, 17, 187, 182, 179, 0, 243,
    132, 56, 148, 75, 128, 133, 158, 100, 130, 126, 91, 13, 153, 246, 216, 219,
    119, 68, 223, 78, 83, 88, 201, 99, 122, 11, 92, 32, 136, 114, 52, 10,
    138, 30, 48, 183, 156, 35, 61, 26, 143, 74, 251, 94, 129, 162, 63, 152,
    170, 7, 115, 167, 241, 206, 3, 150, 55, 59, 151, 220, 90, 53, 23, 131,
    125, 173, 15, 238, 79, 95, 89, 16, 105, 137, 225, 224, 217, 160, 37, 123,
    118, 73, 2, 157, 46, 116, 9, 145, 134, 228, 207, 212, 202, 215, 69, 229,
    27, 188, 67, 124, 168, 252, 42, 4, 29, 108, 21, 247, 19, 205, 39, 203,
    233, 40, 186, 147, 198, 192, 155, 33, 164, 191, 98, 204, 165, 180, 117, 76,
    140, 36, 210, 172, 41, 54, 159, 8, 185, 232, 113, 196, 231, 47, 146, 120,
    51, 65, 28, 144, 254, 221, 93, 189, 194, 139, 112, 43, 71, 109, 184, 209,
];

pub const REF_TOPVAL: [u32; 170] = [
    1, 2, 3, 5, 7, 11, 17, 25,
    38, 57, 86, 129, 194, 291, 437, 656,
    854, 1110, 1443, 1876, 2439, 3171, 3475, 3823,
    4205, 4626, 5088, 5597, 6157, 6772, 7450, 8195,
    9014, 9916, 10907, 11998, 13198, 14518, 15970, 17567,
    19323, 21256, 23382, 25720, 28292, 31121, 34233, 37656,
    41422, 45564, 50121, 55133, 60646, 66711, 73382, 80721,
    88793, 97672, 107439, 118183, 130002, 143002, 157302, 173032,
    190335, 209369, 230306, 253337, 278670, 306538, 337191, 370911,
    408002, 448802, 493682, 543050, 597356, 657091, 722800, 795081,
    874589, 962048, 1058252, 1164078, 1280486, 1408534, 1549388, 1704327,
    1874759, 2062236, 2268459, 2495305, 2744836, 3019320, 3321252, 3653374,
    4018711, 4420582, 4862641, 5348905, 5883796, 6472176, 7119394, 7831333,
    8614467, 9475909, 10423501, 11465851, 12612437, 13873681, 15261050, 16787154,
    18465870, 20312458, 22343706, 24578077, 27035886, 29739474, 32713425, 35984770,
    39583245, 43541573, 47895730, 52685306, 57953837, 63749221, 70124148, 77136564,
    84850228, 93335252, 102668779, 112935659, 124229227, 136652151, 150317384, 165349128,
    181884040, 200072456, 220079703, 242087671, 266296456, 292926096, 322218735, 354440623,
    389884688, 428873168, 471760495, 518936559, 570830240, 627913311, 690704607, 759775136,
    835752671, 919327967, 1011260767, 1112386880, 1223623232, 1345985727, 1480584256, 1628642751,
    1791507135, 1970657856, 2167723648, 2384496256, 2622945920, 2885240448, 3173764736, 3491141248,
    3840255616, 4224281216,
];

pub const REF_MAX_LEN: u32 = 4_224_281_216;

#[inline(always)]
pub fn ref_p(x: u8) -> u8 {
    REF_PEARSON[x as usize]
}

/// Pearson hash of the 4-byte message (a, b, c, d) from initial state 0.
pub fn ref_map_256(a: u8, b: u8, c: u8, d: u8) -> u8 {
    ref_p(ref_p(ref_p(ref_p(a) ^ b) ^ c) ^ d)
}

/// 48-bucket folding: values >= 240 go to the drain bucket 48, others modulo 48.
pub fn ref_fold_48(x: u8) -> u8 {
    if x >= 240 {
        48
    } else {
        x % 48
    }
}

pub fn ref_map_48(a: u8, b: u8, c: u8, d: u8) -> u8 {
    ref_fold_48(ref_map_256(a, b, c, d))
}

/// Lower bound (inclusive) of the lengths that encode to code `i` (i < 170).
pub fn ref_len_lo(i: usize) -> u32 {
    if i == 0 {
        0
    } else {
        REF_TOPVAL[i - 1] + 1
    }
}

/// `true` iff `len` encodes to `code` in the reference (defining property, no search).
pub fn ref_len_code_is(len: u32, code: usize) -> bool {
    code < 170 && ref_len_lo(code) <= len && len <= REF_TOPVAL[code]
}

/// mod_diff of the TLSH paper on a ring of size n (n in 1..=256).
pub fn ref_mod_diff(x: u32, y: u32, n: u32) -> u32 {
    let d = if x >= y { x - y } else { y - x };
    let e = n - d;
    if d <= e {
        d
    } else {
        e
    }
}

pub fn ref_dist_length(a: u8, b: u8) -> u32 {
    let d = ref_mod_diff(a as u32, b as u32, 256);
    if d <= 1 {
        d
    } else {
        d * 12
    }
}

pub fn ref_dist_q(a: u8, b: u8) -> u32 {
    let d = ref_mod_diff(a as u32, b as u32, 16);
    if d <= 1 {
        d
    } else {
        (d - 1) * 12
    }
}

/// Q-ratio byte: q1 ratio in the low nibble, q2 ratio in the high nibble.
pub fn ref_dist_qratios(a: u8, b: u8) -> u32 {
    ref_dist_q(a & 15, b & 15) + ref_dist_q(a >> 4, b >> 4)
}

pub fn ref_dist_dibit(x: u8, y: u8) -> u32 {
    let d = if x >= y { x - y } else { y - x } as u32;
    if d == 3 {
        6
    } else {
        d
    }
}

/// Distance of two body bytes (4 dibits each).
pub fn ref_dist_body_byte(x: u8, y: u8) -> u32 {
    ref_dist_dibit(x & 3, y & 3)
        + ref_dist_dibit((x >> 2) & 3, (y >> 2) & 3)
        + ref_dist_dibit((x >> 4) & 3, (y >> 4) & 3)
        + ref_dist_dibit((x >> 6) & 3, (y >> 6) & 3)
}

/// Value of a hexadecimal digit of either case.
pub fn ref_hex_val(c: u8) -> Option<u8> {
    if c >= b'0' && c <= b'9' {
        Some(c - b'0')
    } else if c >= b'A' && c <= b'F' {
        Some(c - b'A' + 10)
    } else if c >= b'a' && c <= b'f' {
        Some(c - b'a' + 10)
    } else {
        None
    }
}

pub fn ref_is_hex(c: u8) -> bool {
    ref_hex_val(c).is_some()
}

/// Uppercase hexadecimal digit of a nibble.
pub fn ref_hex_upper(n: u8) -> u8 {
    if n < 10 {
        b'0' + n
    } else {
        b'A' + (n - 10)
    }
}

pub fn ref_upper(c: u8) -> u8 {
    if c >= b'a' && c <= b'z' {
        c - 32
    } else {
        c
    }
}

pub fn ref_swap(x: u8) -> u8 {
    (x << 4) | (x >> 4)
}

/// Bucket -> dibit by strict `>` against q1 <= q2 <= q3.
pub fn ref_quartile(v: u32, q1: u32, q2: u32, q3: u32) -> u8 {
    if v > q3 {
        3
    } else if v > q2 {
        2
    } else if v > q1 {
        1
    } else {
        0
    }
}

/// Length validity classes: 0 TooSmall, 1 ValidWhenOptimistic, 2 Valid, 3 TooLarge.
pub fn ref_validity(len: u32, buckets: usize) -> u8 {
    let (min, minc) = if buckets == 48 { (10, 10) } else { (50, 128) };
    if len < min {
        0
    } else if len < minc {
        1
    } else if len <= REF_MAX_LEN {
        2
    } else {
        3
    }
}

/// Contract model of `core::str::from_utf8` for the texts this crate produces: the real
/// validator (word-at-a-time, alignment dependent) is very expensive on symbolic bytes.  Pure
/// ASCII is valid UTF-8; any non-ASCII byte fails the harness (for this crate it would be a bug:
/// every text it formats is "T1" + hexadecimal digits).
#[cfg(kani)]
pub fn stub_from_utf8(v: &[u8]) -> Result<&str, core::str::Utf8Error> {
    let mut i = 0;
    while i < v.len() {
        assert!(v[i] < 128, "non-ASCII byte handed to str::from_utf8");
        i += 1;
    }
    #[allow(unsafe_code)]
    Ok(unsafe { core::str::from_utf8_unchecked(v) })
}

// C07: AVX2 bucket aggregation (child module of bucket_aggregation::x86_avx2; K6 only).
#![allow(missing_docs)]
#![allow(clippy::all)]
#![allow(unused_imports)]
#![allow(unsafe_code)]

use super::*;
use crate::verif::refmodel::*;

/// Intel pseudo-code of VPSHUFB (per 128-bit lane).
fn stub_shuffle256_epi8(a: __m256i, b: __m256i) -> __m256i {
    let a: [u8; 32] = unsafe { core::mem::transmute(a) };
    let b: [u8; 32] = unsafe { core::mem::transmute(b) };
    let mut r = [0u8; 32];
    let mut i = 0;
    while i < 32 {
        let lane = i & 16;
        r[i] = if b[i] & 0x80 != 0 { 0 } else { a[lane + (b[i] & 0x0f) as usize] };
        i += 1;
    }
    unsafe { core::mem::transmute(r) }
}

//@ h=agg_avx2_kernel props=C01,C07,C17 cfgs=K6 tier=q t=900 | funcs: x86_avx2::sub_aggregation | bound: any 8 u32 counters x all q1<=q2<=q3: (hi, lo) bytes == packed reference dibits of counters 4..7 and 0..3 | stubs: _mm256_shuffle_epi8 -> Intel pseudo-code
#[kani::proof]
#[kani::unwind(34)]
#[kani::stub(core::arch::x86_64::_mm256_shuffle_epi8, stub_shuffle256_epi8)]
fn agg_avx2_kernel() {
    let b: [u32; 8] = kani::any();
    let (q1, q2, q3): (u32, u32, u32) = (kani::any(), kani::any(), kani::any());
    kani::assume(q1 <= q2 && q2 <= q3);
    let (hi, lo) = unsafe { sub_aggregation(&b, q1, q2, q3) };
    let e_lo = ref_quartile(b[0], q1, q2, q3)
        | (ref_quartile(b[1], q1, q2, q3) << 2)
        | (ref_quartile(b[2], q1, q2, q3) << 4)
        | (ref_quartile(b[3], q1, q2, q3) << 6);
    let e_hi = ref_quartile(b[4], q1, q2, q3)
        | (ref_quartile(b[5], q1, q2, q3) << 2)
        | (ref_quartile(b[6], q1, q2, q3) << 4)
        | (ref_quartile(b[7], q1, q2, q3) << 6);
    assert!(lo == e_lo);
    assert!(hi == e_hi);
}

macro_rules! agg_struct {
    ($name:ident, $f:ident, $nb:literal, $sb:literal, $unw:literal) => {
        #[kani::proof]
        #[kani::unwind($unw)]
        #[kani::stub(core::arch::x86_64::_mm256_shuffle_epi8, stub_shuffle256_epi8)]
        fn $name() {
            let b: [u32; $nb] = kani::any();
            let (q1, q2, q3): (u32, u32, u32) = (kani::any(), kani::any(), kani::any());
            kani::assume(q1 <= q2 && q2 <= q3);
            let mut out: [u8; $sb] = kani::any();
            unsafe { $f(&mut out, &b, q1, q2, q3) };
            // pair p (bytes 2p, 2p+1 of the digest) covers buckets 8(SB/2-1-p) .. +8
            let p: usize = kani::any();
            kani::assume(p < $sb / 2);
            let base = 8 * ($sb / 2 - 1 - p);
            let (hi, lo) = unsafe { sub_aggregation(&b[base..base + 8], q1, q2, q3) };
            assert!(out[2 * p] == hi);
            assert!(out[2 * p + 1] == lo);
        }
    };
}
//@ h=agg_avx2_48 props=C01,C07,C17 cfgs=K6 tier=q t=900 | funcs: x86_avx2::aggregate_48 | bound: all inputs: digest bytes 2p,2p+1 == real kernel on buckets 8(5-p).. | stubs: _mm256_shuffle_epi8 pseudo-code
agg_struct!(agg_avx2_48, aggregate_48, 48, 12, 52);
//@ h=agg_avx2_128 props=C01,C07,C17 cfgs=K6 tier=t t=1800 | funcs: x86_avx2::aggregate_128 | bound: all inputs | stubs: _mm256_shuffle_epi8 pseudo-code
agg_struct!(agg_avx2_128, aggregate_128, 128, 32, 132);
//@ h=agg_avx2_256 props=C01,C07,C17 cfgs=K6 tier=t t=2400 | funcs: x86_avx2::aggregate_256 | bound: all inputs | stubs: _mm256_shuffle_epi8 pseudo-code
agg_struct!(agg_avx2_256, aggregate_256, 256, 64, 260);

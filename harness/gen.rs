// Generator lemmas (C01, C03, C10, C11, C15): child module of `crate::generate`, so that the
// `pub(super)` fields of `inner::Generator` can be made symbolic directly.
#![allow(missing_docs)]
#![allow(clippy::all)]
#![allow(unused_imports)]
#![allow(unsafe_code)]
#![allow(static_mut_refs)]
#![allow(dead_code)]

use super::inner::Generator as G;
use super::*;
use crate::buckets::constrained::{FuzzyHashBucketMapper, FuzzyHashBucketsInfo};
use crate::buckets::FuzzyHashBucketsData;
use crate::hash::checksum::FuzzyHashChecksumData;
use crate::verif::refmodel::*;
use crate::{FuzzyHashType, GeneratorType};

pub(crate) type GShort = G<1, 12, 48, 15, 32>;
pub(crate) type GNormal = G<1, 32, 128, 35, 72>;
pub(crate) type GNormalL = G<3, 32, 128, 37, 76>;
pub(crate) type GLong = G<1, 64, 256, 67, 136>;
pub(crate) type GLongL = G<3, 64, 256, 69, 140>;

// ------------------------------------------------------------------ call-trace stubs
//
// `update()` touches the buckets only through `increment` and computes every index / checksum
// byte through `tlsh_b_mapping_48/256`.  Under Kani both are replaced by logging stubs: the
// mapping stub records its arguments and returns RET[i], a value chosen (universally) by the
// harness; the increment stub records the index.  Two runs that produce the same trace for every
// RET are equal for every deterministic mapping function, in particular the real one (DESIGN.md
// section 5, C01).  The real functions have their own lemmas (pears.rs, hashv.rs).
// Natively (cargo kani playback) the stubs are NOT applied, LOG_N stays 0 and the harnesses fall
// back to comparing complete states of the real code.

const LOGCAP: usize = 512;
const T_M48: u8 = 1;
const T_M256: u8 = 2;
const T_INC: u8 = 3;
static mut LOG: [(u8, u8, u8, u8, u8); LOGCAP] = [(0, 0, 0, 0, 0); LOGCAP];
static mut LOG_N: usize = 0;
static mut RET: [u8; LOGCAP] = [0; LOGCAP];

fn log_push(e: (u8, u8, u8, u8, u8)) -> usize {
    unsafe {
        let i = LOG_N;
        assert!(i < LOGCAP);
        LOG[i] = e;
        LOG_N = i + 1;
        i
    }
}

fn stub_map48(a: u8, b: u8, c: u8, d: u8) -> u8 {
    let i = log_push((T_M48, a, b, c, d));
    unsafe { RET[i] }
}

fn stub_map256(a: u8, b: u8, c: u8, d: u8) -> u8 {
    let i = log_push((T_M256, a, b, c, d));
    unsafe { RET[i] }
}

fn stub_inc<const SIZE_BUCKETS: usize>(_this: &mut FuzzyHashBucketsData<SIZE_BUCKETS>, index: u8)
where
    FuzzyHashBucketsInfo<SIZE_BUCKETS>: FuzzyHashBucketMapper,
{
    log_push((T_INC, index, 0, 0, 0));
}

fn log_reset() {
    unsafe {
        LOG_N = 0;
    }
}

fn stubs_active() -> bool {
    log_reset();
    let _ = crate::pearson::tlsh_b_mapping_256(1, 2, 3, 4);
    let n = unsafe { LOG_N };
    log_reset();
    n == 1
}

// ------------------------------------------------------------------ symbolic states

macro_rules! sym_state_fn {
    ($name:ident, $ty:ty, $ck:literal) => {
        fn $name(len: u32, tail_len: u32) -> $ty {
            let mut g = <$ty>::default();
            g.buckets.buckets = kani::any();
            g.len = len;
            let ck: [u8; $ck] = kani::any();
            g.checksum = FuzzyHashChecksumData::from_raw(&ck);
            g.tail = kani::any();
            g.tail_len = tail_len;
            g
        }
    };
}
sym_state_fn!(sym_short, GShort, 1);
sym_state_fn!(sym_normal, GNormal, 1);
sym_state_fn!(sym_normal_l, GNormalL, 3);
sym_state_fn!(sym_long, GLong, 1);
sym_state_fn!(sym_long_l, GLongL, 3);

// ------------------------------------------------------------------ reference step (spec trace)

/// Reference model of one generator, in terms of the abstract mapping function: consumes bytes,
/// and checks (in stub mode) that the real code's call trace is exactly the one TLSH defines.
struct RefGen<const CK: usize> {
    win: [u8; 4],
    tl: usize,
    ck: [u8; CK],
    consumed: u32,
    j: usize,
    ok: bool,
    mtag: u8,
}

impl<const CK: usize> RefGen<CK> {
    fn expect(&mut self, e: (u8, u8, u8, u8, u8)) -> u8 {
        let j = self.j;
        let (got, r) = unsafe { (LOG[j], RET[j]) };
        if j >= unsafe { LOG_N } || got != e {
            self.ok = false;
        }
        self.j = j + 1;
        r
    }
    /// One byte of input (TLSH reference: 5-byte window, checksum, six salted triplets).
    fn feed(&mut self, b: u8) {
        if self.tl < 4 {
            self.win[self.tl] = b;
            self.tl += 1;
            return;
        }
        let (w0, w1, w2, w3) = (self.win[0], self.win[1], self.win[2], self.win[3]);
        // checksum: byte 0 uses the variant's mapper with salt 0; further bytes (3-byte checksum)
        // always use the 256 mapper, salted with the previous checksum byte.
        let r = self.expect((self.mtag, 0, b, w3, self.ck[0]));
        self.ck[0] = r;
        let mut k = 1;
        while k < CK {
            let r = self.expect((T_M256, self.ck[k - 1], b, w3, self.ck[k]));
            self.ck[k] = r;
            k += 1;
        }
        let trip: [(u8, u8, u8); 6] =
            [(2, w3, w2), (3, w3, w1), (5, w2, w1), (7, w2, w0), (11, w3, w0), (13, w1, w0)];
        let mut t = 0;
        while t < 6 {
            let (salt, x, y) = trip[t];
            let r = self.expect((self.mtag, salt, b, x, y));
            let _ = self.expect((T_INC, r, 0, 0, 0));
            t += 1;
        }
        self.win = [w1, w2, w3, b];
        self.consumed += 1;
    }
}

/// The same reference, natively: applies the real reference Pearson mapping and counts buckets.
struct RefGenFull<const CK: usize> {
    win: [u8; 4],
    tl: usize,
    ck: [u8; CK],
    consumed: u32,
    buckets: [u32; 256],
    short: bool,
}

impl<const CK: usize> RefGenFull<CK> {
    fn map(&self, a: u8, b: u8, c: u8, d: u8) -> u8 {
        if self.short {
            ref_map_48(a, b, c, d)
        } else {
            ref_map_256(a, b, c, d)
        }
    }
    fn feed(&mut self, b: u8) {
        if self.tl < 4 {
            self.win[self.tl] = b;
            self.tl += 1;
            return;
        }
        let (w0, w1, w2, w3) = (self.win[0], self.win[1], self.win[2], self.win[3]);
        self.ck[0] = self.map(0, b, w3, self.ck[0]);
        let mut k = 1;
        while k < CK {
            self.ck[k] = ref_map_256(self.ck[k - 1], b, w3, self.ck[k]);
            k += 1;
        }
        let trip: [(u8, u8, u8); 6] =
            [(2, w3, w2), (3, w3, w1), (5, w2, w1), (7, w2, w0), (11, w3, w0), (13, w1, w0)];
        let mut t = 0;
        while t < 6 {
            let (salt, x, y) = trip[t];
            let r = self.map(salt, b, x, y) as usize;
            self.buckets[r] = self.buckets[r].wrapping_add(1);
            t += 1;
        }
        self.win = [w1, w2, w3, b];
        self.consumed += 1;
    }
}

// ------------------------------------------------------------------ S: update(piece) == spec trace
//
// Concrete: initial tail_len, piece length, len (cost driver: symbolic sizes byte-flatten the
// 1 KiB struct).  Symbolic: piece bytes, tail bytes, checksum, all 256 bucket counters, RET.

macro_rules! lemma_s {
    ($name:ident, $ty:ty, $sym:ident, $ck:literal, $nb:literal, $mtag:expr, $tl:literal, $n:literal) => {
        #[kani::proof]
        #[kani::unwind(40)]
        #[kani::stub(crate::pearson::tlsh_b_mapping_48, stub_map48)]
        #[kani::stub(crate::pearson::tlsh_b_mapping_256, stub_map256)]
        #[kani::stub(crate::buckets::FuzzyHashBucketsData::increment, stub_inc)]
        fn $name() {
            let stubbed = stubs_active();
            let g0: $ty = $sym(1000, $tl);
            let piece: [u8; $n] = kani::any();
            unsafe {
                RET = kani::any();
            }
            log_reset();
            let mut a = g0.clone();
            a.update(&piece);
            let ck0: [u8; $ck] = *g0.checksum.data();
            if stubbed {
                let mut r = RefGen::<$ck> {
                    win: g0.tail, tl: $tl, ck: ck0, consumed: 0, j: 0, ok: true, mtag: $mtag,
                };
                let mut i = 0;
                while i < $n {
                    r.feed(piece[i]);
                    i += 1;
                }
                assert!(r.ok);
                assert!(r.j == unsafe { LOG_N });
                assert!(a.len == 1000 + r.consumed);
                assert!(a.tail_len as usize == r.tl);
                let mut t = 0;
                while t < 4 {
                    if t < r.tl {
                        assert!(a.tail[t] == r.win[t]);
                    }
                    t += 1;
                }
                assert!(*a.checksum.data() == r.ck);
                let k: usize = kani::any();
                kani::assume(k < 256);
                assert!(a.buckets.buckets[k] == g0.buckets.buckets[k]);
                assert!(a.processed_len() == Some(1000 + r.consumed + r.tl as u32));
                kani::cover!(r.consumed as usize == ($n + $tl as usize).saturating_sub(4));
            } else {
                // native replay: complete comparison against the full reference model
                let mut r = RefGenFull::<$ck> {
                    win: g0.tail, tl: $tl, ck: ck0, consumed: 0,
                    buckets: g0.buckets.buckets, short: $nb == 48,
                };
                let mut i = 0;
                while i < $n {
                    r.feed(piece[i]);
                    i += 1;
                }
                assert!(a.len == 1000 + r.consumed);
                assert!(a.tail_len as usize == r.tl);
                assert!(a.tail[..r.tl] == r.win[..r.tl]);
                assert!(*a.checksum.data() == r.ck);
                assert!(a.buckets.buckets[..$nb] == r.buckets[..$nb]);
            }
        }
    };
}

// ------------------------------------------------------------------ C: update(piece) == bytewise

macro_rules! lemma_c {
    ($name:ident, $ty:ty, $sym:ident, $tl:literal, $n:literal) => {
        #[kani::proof]
        #[kani::unwind(40)]
        #[kani::stub(crate::pearson::tlsh_b_mapping_48, stub_map48)]
        #[kani::stub(crate::pearson::tlsh_b_mapping_256, stub_map256)]
        #[kani::stub(crate::buckets::FuzzyHashBucketsData::increment, stub_inc)]
        fn $name() {
            let stubbed = stubs_active();
            let g0: $ty = $sym(1000, $tl);
            let piece: [u8; $n] = kani::any();
            unsafe {
                RET = kani::any();
            }
            log_reset();
            let mut a = g0.clone();
            a.update(&piece);
            let (log_a, n_a) = unsafe { (LOG, LOG_N) };
            log_reset();
            let mut b = g0.clone();
            let mut i = 0;
            while i < $n {
                b.update(&piece[i..i + 1]);
                if i == 0 {
                    b.update(&[]); // empty pieces change nothing
                }
                i += 1;
            }
            let (log_b, n_b) = unsafe { (LOG, LOG_N) };
            if stubbed {
                assert!(n_a == n_b);
                let j: usize = kani::any();
                kani::assume(j < n_a);
                assert!(log_a[j] == log_b[j]);
                kani::cover!(n_a == 13 * (($n + $tl as usize).saturating_sub(4))
                    || n_a == 15 * (($n + $tl as usize).saturating_sub(4)));
            }
            assert!(a.len == b.len);
            assert!(a.tail_len == b.tail_len);
            let mut t = 0;
            while t < 4 {
                if (t as u32) < a.tail_len {
                    assert!(a.tail[t] == b.tail[t]);
                }
                t += 1;
            }
            assert!(a.checksum == b.checksum);
            assert!(a.processed_len() == b.processed_len());
            let k: usize = kani::any();
            kani::assume(k < 256);
            assert!(a.buckets.buckets[k] == b.buckets.buckets[k]);
        }
    };
}

// Short variant: rich set of (tail_len, n) classes -- see DESIGN.md for the path classes
//@ h=s_short_4_0 props=C01,C03 cfgs=K0 tier=q t=300 | funcs: inner::Generator<Short>::update | bound: tail_len0=4, piece of 0 bytes, len=1000 concrete; contents symbolic | stubs: tlsh_b_mapping_48/256 (logging, arbitrary return), FuzzyHashBucketsData::increment (logging)
lemma_s!(s_short_4_0, GShort, sym_short, 1, 48, T_M48, 4, 0);
//@ h=s_short_4_1 props=C01,C03,C11 cfgs=K0,K1 tier=q t=300 | funcs: inner::Generator<Short>::update | bound: tail_len0=4, piece of 1 byte (the inductive step) | stubs: mapping + increment logging stubs
lemma_s!(s_short_4_1, GShort, sym_short, 1, 48, T_M48, 4, 1);
//@ h=s_short_4_3 props=C01,C03 cfgs=K0 tier=q t=300 | funcs: inner::Generator<Short>::update | bound: tail_len0=4, 3 bytes (partial tail rewrite) | stubs: mapping + increment logging stubs
lemma_s!(s_short_4_3, GShort, sym_short, 1, 48, T_M48, 4, 3);
//@ h=s_short_4_4 props=C01,C03 cfgs=K0 tier=q t=300 | funcs: inner::Generator<Short>::update | bound: tail_len0=4, 4 bytes (full tail rewrite, boundary) | stubs: mapping + increment logging stubs
lemma_s!(s_short_4_4, GShort, sym_short, 1, 48, T_M48, 4, 4);
//@ h=s_short_4_6 props=C01,C03 cfgs=K0 tier=q t=400 | funcs: inner::Generator<Short>::update | bound: tail_len0=4, 6 bytes | stubs: mapping + increment logging stubs
lemma_s!(s_short_4_6, GShort, sym_short, 1, 48, T_M48, 4, 6);
//@ h=s_short_0_0 props=C01,C03 cfgs=K0 tier=q t=300 | funcs: inner::Generator<Short>::update | bound: tail_len0=0, empty piece | stubs: mapping + increment logging stubs
lemma_s!(s_short_0_0, GShort, sym_short, 1, 48, T_M48, 0, 0);
//@ h=s_short_0_3 props=C01,C03 cfgs=K0 tier=q t=300 | funcs: inner::Generator<Short>::update | bound: tail_len0=0, 3 bytes (tail not filled) | stubs: mapping + increment logging stubs
lemma_s!(s_short_0_3, GShort, sym_short, 1, 48, T_M48, 0, 3);
//@ h=s_short_0_4 props=C01,C03 cfgs=K0 tier=q t=300 | funcs: inner::Generator<Short>::update | bound: tail_len0=0, 4 bytes (tail exactly filled, early return) | stubs: mapping + increment logging stubs
lemma_s!(s_short_0_4, GShort, sym_short, 1, 48, T_M48, 0, 4);
//@ h=s_short_0_5 props=C01,C03 cfgs=K0 tier=q t=300 | funcs: inner::Generator<Short>::update | bound: tail_len0=0, 5 bytes (first window) | stubs: mapping + increment logging stubs
lemma_s!(s_short_0_5, GShort, sym_short, 1, 48, T_M48, 0, 5);
//@ h=s_short_0_9 props=C01,C03 cfgs=K0 tier=q t=500 | funcs: inner::Generator<Short>::update | bound: tail_len0=0, 9 bytes (fill, 5 windows, full rewrite) | stubs: mapping + increment logging stubs
lemma_s!(s_short_0_9, GShort, sym_short, 1, 48, T_M48, 0, 9);
//@ h=s_short_2_1 props=C01,C03 cfgs=K0 tier=q t=300 | funcs: inner::Generator<Short>::update | bound: tail_len0=2, 1 byte | stubs: mapping + increment logging stubs
lemma_s!(s_short_2_1, GShort, sym_short, 1, 48, T_M48, 2, 1);
//@ h=s_short_2_2 props=C01,C03 cfgs=K0 tier=q t=300 | funcs: inner::Generator<Short>::update | bound: tail_len0=2, 2 bytes (exact fill) | stubs: mapping + increment logging stubs
lemma_s!(s_short_2_2, GShort, sym_short, 1, 48, T_M48, 2, 2);
//@ h=s_short_2_3 props=C01,C03 cfgs=K0 tier=q t=300 | funcs: inner::Generator<Short>::update | bound: tail_len0=2, 3 bytes (fill + 1 window, partial rewrite) | stubs: mapping + increment logging stubs
lemma_s!(s_short_2_3, GShort, sym_short, 1, 48, T_M48, 2, 3);
//@ h=s_short_2_7 props=C01,C03 cfgs=K0 tier=q t=400 | funcs: inner::Generator<Short>::update | bound: tail_len0=2, 7 bytes | stubs: mapping + increment logging stubs
lemma_s!(s_short_2_7, GShort, sym_short, 1, 48, T_M48, 2, 7);
//@ h=s_short_1_7 props=C01,C03 cfgs=K0 tier=q t=400 | funcs: inner::Generator<Short>::update | bound: tail_len0=1, 7 bytes | stubs: mapping + increment logging stubs
lemma_s!(s_short_1_7, GShort, sym_short, 1, 48, T_M48, 1, 7);
//@ h=s_short_3_2 props=C01,C03 cfgs=K0 tier=q t=300 | funcs: inner::Generator<Short>::update | bound: tail_len0=3, 2 bytes | stubs: mapping + increment logging stubs
lemma_s!(s_short_3_2, GShort, sym_short, 1, 48, T_M48, 3, 2);
//@ h=s_short_3_6 props=C01,C03 cfgs=K0 tier=q t=400 | funcs: inner::Generator<Short>::update | bound: tail_len0=3, 6 bytes | stubs: mapping + increment logging stubs
lemma_s!(s_short_3_6, GShort, sym_short, 1, 48, T_M48, 3, 6);
// other variants: the step and one crossing each (3-byte checksum chain, 256 mapper)
//@ h=s_normal_4_1 props=C01,C03 cfgs=K0 tier=q t=300 | funcs: inner::Generator<Normal>::update | bound: tail_len0=4, 1 byte | stubs: mapping + increment logging stubs
lemma_s!(s_normal_4_1, GNormal, sym_normal, 1, 128, T_M256, 4, 1);
//@ h=s_normal_3_3 props=C01,C03 cfgs=K0 tier=q t=300 | funcs: inner::Generator<Normal>::update | bound: tail_len0=3, 3 bytes | stubs: mapping + increment logging stubs
lemma_s!(s_normal_3_3, GNormal, sym_normal, 1, 128, T_M256, 3, 3);
//@ h=s_normall_4_1 props=C01,C03 cfgs=K0 tier=q t=300 | funcs: inner::Generator<NormalWithLongChecksum>::update, 3-byte InnerChecksum::update | bound: tail_len0=4, 1 byte | stubs: mapping + increment logging stubs
lemma_s!(s_normall_4_1, GNormalL, sym_normal_l, 3, 128, T_M256, 4, 1);
//@ h=s_normall_0_9 props=C01,C03 cfgs=K0 tier=q t=500 | funcs: inner::Generator<NormalWithLongChecksum>::update | bound: tail_len0=0, 9 bytes | stubs: mapping + increment logging stubs
lemma_s!(s_normall_0_9, GNormalL, sym_normal_l, 3, 128, T_M256, 0, 9);
//@ h=s_long_4_2 props=C01,C03 cfgs=K0 tier=q t=300 | funcs: inner::Generator<Long>::update | bound: tail_len0=4, 2 bytes | stubs: mapping + increment logging stubs
lemma_s!(s_long_4_2, GLong, sym_long, 1, 256, T_M256, 4, 2);
//@ h=s_longl_1_8 props=C01,C03 cfgs=K0 tier=q t=500 | funcs: inner::Generator<LongWithLongChecksum>::update | bound: tail_len0=1, 8 bytes | stubs: mapping + increment logging stubs
lemma_s!(s_longl_1_8, GLongL, sym_long_l, 3, 256, T_M256, 1, 8);

//@ h=c_short_4_5 props=C03 cfgs=K0 tier=q t=400 | funcs: inner::Generator<Short>::update (whole piece vs byte-by-byte with interleaved empty update) | bound: tail_len0=4, 5 bytes; real code on both sides | stubs: mapping + increment logging stubs
lemma_c!(c_short_4_5, GShort, sym_short, 4, 5);
//@ h=c_short_0_9 props=C03 cfgs=K0 tier=q t=500 | funcs: inner::Generator<Short>::update | bound: tail_len0=0, 9 bytes | stubs: mapping + increment logging stubs
lemma_c!(c_short_0_9, GShort, sym_short, 0, 9);
//@ h=c_short_2_3 props=C03 cfgs=K0 tier=q t=400 | funcs: inner::Generator<Short>::update | bound: tail_len0=2, 3 bytes | stubs: mapping + increment logging stubs
lemma_c!(c_short_2_3, GShort, sym_short, 2, 3);
//@ h=c_short_1_7 props=C03 cfgs=K0 tier=q t=500 | funcs: inner::Generator<Short>::update | bound: tail_len0=1, 7 bytes | stubs: mapping + increment logging stubs
lemma_c!(c_short_1_7, GShort, sym_short, 1, 7);
//@ h=c_normall_3_6 props=C03 cfgs=K0 tier=q t=500 | funcs: inner::Generator<NormalWithLongChecksum>::update | bound: tail_len0=3, 6 bytes | stubs: mapping + increment logging stubs
lemma_c!(c_normall_3_6, GNormalL, sym_normal_l, 3, 6);
//@ h=c_long_4_4 props=C03 cfgs=K0 tier=q t=400 | funcs: inner::Generator<Long>::update | bound: tail_len0=4, 4 bytes | stubs: mapping + increment logging stubs
lemma_c!(c_long_4_4, GLong, sym_long, 4, 4);

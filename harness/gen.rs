// Generator lemmas (C01, C03, C10, C11, C15): child module of `crate::generate`, so that the
// `pub(super)` fields of `inner::Generator` can be made symbolic directly.
#![allow(missing_docs)]
#![allow(clippy::all)]
#![allow(unused_imports)]
#![allow(unsafe_code)]
#![allow(static_mut_refs)]
#![allow(dead_code)]

use super::inner::Generator as G;
use super::*;
use crate::buckets::constrained::{FuzzyHashBucketMapper, FuzzyHashBucketsInfo};
use crate::buckets::FuzzyHashBucketsData;
use crate::hash::checksum::FuzzyHashChecksumData;
use crate::verif::refmodel::*;
use crate::{FuzzyHashType, GeneratorType};

pub(crate) type GShort = G<1, 12, 48, 15, 32>;
pub(crate) type GNormal = G<1, 32, 128, 35, 72>;
pub(crate) type GNormalL = G<3, 32, 128, 37, 76>;
pub(crate) type GLong = G<1, 64, 256, 67, 136>;
pub(crate) type GLongL = G<3, 64, 256, 69, 140>;

// ------------------------------------------------------------------ call-trace stubs
//
// `update()` touches the buckets only through `increment` and computes every index / checksum
// byte through `tlsh_b_mapping_48/256`.  Under Kani both are replaced by logging stubs: the
// mapping stub records its arguments and returns RET[i], a value chosen (universally) by the
// harness; the increment stub records the index.  Two runs that produce the same trace for every
// RET are equal for every deterministic mapping function, in particular the real one (DESIGN.md
// section 5, C01).  The real functions have their own lemmas (pears.rs, hashv.rs).
// Natively (cargo kani playback) the stubs are NOT applied, LOG_N stays 0 and the harnesses fall
// back to comparing complete states of the real code.

const LOGCAP: usize = 512;
const T_M48: u8 = 1;
const T_M256: u8 = 2;
const T_INC: u8 = 3;
static mut LOG: [(u8, u8, u8, u8, u8); LOGCAP] = [(0, 0, 0, 0, 0); LOGCAP];
static mut LOG_N: usize = 0;
static mut RET: [u8; LOGCAP] = [0; LOGCAP];

fn log_push(e: (u8, u8, u8, u8, u8)) -> usize {
    unsafe {
        let i = LOG_N;
        assert!(i < LOGCAP);
        LOG[i] = e;
        LOG_N = i + 1;
        i
    }
}

fn stub_map48(a: u8, b: u8, c: u8, d: u8) -> u8 {
    let i = log_push((T_M48, a, b, c, d));
    unsafe { RET[i] }
}

fn stub_map256(a: u8, b: u8, c: u8, d: u8) -> u8 {
    let i = log_push((T_M256, a, b, c, d));
    unsafe { RET[i] }
}

fn stub_inc<const SIZE_BUCKETS: usize>(_this: &mut FuzzyHashBucketsData<SIZE_BUCKETS>, index: u8)
where
    FuzzyHashBucketsInfo<SIZE_BUCKETS>: FuzzyHashBucketMapper,
{
    log_push((T_INC, index, 0, 0, 0));
}

fn log_reset() {
    unsafe {
        LOG_N = 0;
    }
}

fn stubs_active() -> bool {
    log_reset();
    let _ = crate::pearson::tlsh_b_mapping_256(1, 2, 3, 4);
    let n = unsafe { LOG_N };
    log_reset();
    n == 1
}

// ------------------------------------------------------------------ symbolic states

macro_rules! sym_state_fn {
    ($name:ident, $ty:ty, $ck:literal) => {
        fn $name(len: u32, tail_len: u32) -> $ty {
            let mut g = <$ty>::default();
            g.buckets.buckets = kani::any();
            g.len = len;
            let ck: [u8; $ck] = kani::any();
            g.checksum = FuzzyHashChecksumData::from_raw(&ck);
            g.tail = kani::any();
            g.tail_len = tail_len;
            g
        }
    };
}
sym_state_fn!(sym_short, GShort, 1);
sym_state_fn!(sym_normal, GNormal, 1);
sym_state_fn!(sym_normal_l, GNormalL, 3);
sym_state_fn!(sym_long, GLong, 1);
sym_state_fn!(sym_long_l, GLongL, 3);

// ------------------------------------------------------------------ reference step (spec trace)

/// Reference model of one generator, in terms of the abstract mapping function: consumes bytes,
/// and checks (in stub mode) that the real code's call trace is exactly the one TLSH defines.
struct RefGen<const CK: usize> {
    win: [u8; 4],
    tl: usize,
    ck: [u8; CK],
    consumed: u32,
    j: usize,
    ok: bool,
    mtag: u8,
}

impl<const CK: usize> RefGen<CK> {
    fn expect(&mut self, e: (u8, u8, u8, u8, u8)) -> u8 {
        let j = self.j;
        let (got, r) = unsafe { (LOG[j], RET[j]) };
        if j >= unsafe { LOG_N } || got != e {
            self.ok = false;
        }
        self.j = j + 1;
        r
    }
    /// One byte of input (TLSH reference: 5-byte window, checksum, six salted triplets).
    fn feed(&mut self, b: u8) {
        if self.tl < 4 {
            self.win[self.tl] = b;
            self.tl += 1;
            return;
        }
        let (w0, w1, w2, w3) = (self.win[0], self.win[1], self.win[2], self.win[3]);
        // checksum: byte 0 uses the variant's mapper with salt 0; further bytes (3-byte checksum)
        // always use the 256 mapper, salted with the previous checksum byte.
        let r = self.expect((self.mtag, 0, b, w3, self.ck[0]));
        self.ck[0] = r;
        let mut k = 1;
        while k < CK {
            let r = self.expect((T_M256, self.ck[k - 1], b, w3, self.ck[k]));
            self.ck[k] = r;
            k += 1;
        }
        let trip: [(u8, u8, u8); 6] =
            [(2, w3, w2), (3, w3, w1), (5, w2, w1), (7, w2, w0), (11, w3, w0), (13, w1, w0)];
        let mut t = 0;
        while t < 6 {
            let (salt, x, y) = trip[t];
            let r = self.expect((self.mtag, salt, b, x, y));
            let _ = self.expect((T_INC, r, 0, 0, 0));
            t += 1;
        }
        self.win = [w1, w2, w3, b];
        self.consumed += 1;
    }
}

/// The same reference, natively: applies the real reference Pearson mapping and counts buckets.
struct RefGenFull<const CK: usize> {
    win: [u8; 4],
    tl: usize,
    ck: [u8; CK],
    consumed: u32,
    buckets: [u32; 256],
    short: bool,
}

impl<const CK: usize> RefGenFull<CK> {
    fn map(&self, a: u8, b: u8, c: u8, d: u8) -> u8 {
        if self.short {
            ref_map_48(a, b, c, d)
        } else {
            ref_map_256(a, b, c, d)
        }
    }
    fn feed(&mut self, b: u8) {
        if self.tl < 4 {
            self.win[self.tl] = b;
            self.tl += 1;
            return;
        }
        let (w0, w1, w2, w3) = (self.win[0], self.win[1], self.win[2], self.win[3]);
        self.ck[0] = self.map(0, b, w3, self.ck[0]);
        let mut k = 1;
        while k < CK {
            self.ck[k] = ref_map_256(self.ck[k - 1], b, w3, self.ck[k]);
            k += 1;
        }
        let trip: [(u8, u8, u8); 6] =
            [(2, w3, w2), (3, w3, w1), (5, w2, w1), (7, w2, w0), (11, w3, w0), (13, w1, w0)];
        let mut t = 0;
        while t < 6 {
            let (salt, x, y) = trip[t];
            let r = self.map(salt, b, x, y) as usize;
            self.buckets[r] = self.buckets[r].wrapping_add(1);
            t += 1;
        }
        self.win = [w1, w2, w3, b];
        self.consumed += 1;
    }
}

// ------------------------------------------------------------------ S: update(piece) == spec trace
//
// Concrete: initial tail_len, piece length, len (cost driver: symbolic sizes byte-flatten the
// 1 KiB struct).  Symbolic: piece bytes, tail bytes, checksum, all 256 bucket counters, RET.

macro_rules! lemma_s {
    ($name:ident, $ty:ty, $sym:ident, $ck:literal, $nb:literal, $mtag:expr, $tl:literal, $n:literal) => {
        #[kani::proof]
        #[kani::unwind(40)]
        #[kani::stub(crate::pearson::tlsh_b_mapping_48, stub_map48)]
        #[kani::stub(crate::pearson::tlsh_b_mapping_256, stub_map256)]
        #[kani::stub(crate::buckets::FuzzyHashBucketsData::increment, stub_inc)]
        fn $name() {
            let stubbed = stubs_active();
            let g0: $ty = $sym(1000, $tl);
            let piece: [u8; $n] = kani::any();
            unsafe {
                RET = kani::any();
            }
            log_reset();
            let mut a = g0.clone();
            a.update(&piece);
            let ck0: [u8; $ck] = *g0.checksum.data();
            if stubbed {
                let mut r = RefGen::<$ck> {
                    win: g0.tail, tl: $tl, ck: ck0, consumed: 0, j: 0, ok: true, mtag: $mtag,
                };
                let mut i = 0;
                while i < $n {
                    r.feed(piece[i]);
                    i += 1;
                }
                assert!(r.ok);
                assert!(r.j == unsafe { LOG_N });
                assert!(a.len == 1000 + r.consumed);
                assert!(a.tail_len as usize == r.tl);
                let mut t = 0;
                while t < 4 {
                    if t < r.tl {
                        assert!(a.tail[t] == r.win[t]);
                    }
                    t += 1;
                }
                assert!(*a.checksum.data() == r.ck);
                let k: usize = kani::any();
                kani::assume(k < a.buckets.buckets.len());
                assert!(a.buckets.buckets[k] == g0.buckets.buckets[k]);
                assert!(a.processed_len() == Some(1000 + r.consumed + r.tl as u32));
                kani::cover!(r.consumed as usize == ($n + $tl as usize).saturating_sub(4));
            } else {
                // native replay: complete comparison against the full reference model
                let mut bb = [0u32; 256];
                bb[..g0.buckets.buckets.len()].copy_from_slice(&g0.buckets.buckets);
                let mut r = RefGenFull::<$ck> {
                    win: g0.tail, tl: $tl, ck: ck0, consumed: 0, buckets: bb, short: $nb == 48,
                };
                let mut i = 0;
                while i < $n {
                    r.feed(piece[i]);
                    i += 1;
                }
                assert!(a.len == 1000 + r.consumed);
                assert!(a.tail_len as usize == r.tl);
                assert!(a.tail[..r.tl] == r.win[..r.tl]);
                assert!(*a.checksum.data() == r.ck);
                assert!(a.buckets.buckets[..$nb] == r.buckets[..$nb]);
            }
        }
    };
}

// ------------------------------------------------------------------ C: update(piece) == bytewise

macro_rules! lemma_c {
    ($name:ident, $ty:ty, $sym:ident, $tl:literal, $n:literal) => {
        #[kani::proof]
        #[kani::unwind(40)]
        #[kani::stub(crate::pearson::tlsh_b_mapping_48, stub_map48)]
        #[kani::stub(crate::pearson::tlsh_b_mapping_256, stub_map256)]
        #[kani::stub(crate::buckets::FuzzyHashBucketsData::increment, stub_inc)]
        fn $name() {
            let stubbed = stubs_active();
            let g0: $ty = $sym(1000, $tl);
            let piece: [u8; $n] = kani::any();
            unsafe {
                RET = kani::any();
            }
            log_reset();
            let mut a = g0.clone();
            a.update(&piece);
            let (log_a, n_a) = unsafe { (LOG, LOG_N) };
            log_reset();
            let mut b = g0.clone();
            let mut i = 0;
            while i < $n {
                b.update(&piece[i..i + 1]);
                if i == 0 {
                    b.update(&[]); // empty pieces change nothing
                }
                i += 1;
            }
            let (log_b, n_b) = unsafe { (LOG, LOG_N) };
            if stubbed {
                assert!(n_a == n_b);
                let j: usize = kani::any();
                kani::assume(j < n_a);
                assert!(log_a[j] == log_b[j]);
                kani::cover!(n_a == 13 * (($n + $tl as usize).saturating_sub(4))
                    || n_a == 15 * (($n + $tl as usize).saturating_sub(4)));
            }
            assert!(a.len == b.len);
            assert!(a.tail_len == b.tail_len);
            let mut t = 0;
            while t < 4 {
                if (t as u32) < a.tail_len {
                    assert!(a.tail[t] == b.tail[t]);
                }
                t += 1;
            }
            assert!(a.checksum == b.checksum);
            assert!(a.processed_len() == b.processed_len());
            let k: usize = kani::any();
            kani::assume(k < a.buckets.buckets.len());
            assert!(a.buckets.buckets[k] == b.buckets.buckets[k]);
        }
    };
}

// Short variant: rich set of (tail_len, n) classes -- see DESIGN.md for the path classes
//@ h=s_short_4_0 props=C01,C03 cfgs=K0 tier=q t=300 | funcs: inner::Generator<Short>::update | bound: tail_len0=4, piece of 0 bytes, len=1000 concrete; contents symbolic | stubs: tlsh_b_mapping_48/256 (logging, arbitrary return), FuzzyHashBucketsData::increment (logging)
lemma_s!(s_short_4_0, GShort, sym_short, 1, 48, T_M48, 4, 0);
//@ h=s_short_4_1 props=C01,C03,C11,C07,C17 cfgs=K0,K1,K3,K10 tier=q t=300 | funcs: inner::Generator<Short>::update | bound: tail_len0=4, piece of 1 byte (the inductive step) | stubs: mapping + increment logging stubs
lemma_s!(s_short_4_1, GShort, sym_short, 1, 48, T_M48, 4, 1);
//@ h=s_short_4_3 props=C01,C03 cfgs=K0 tier=q t=300 | funcs: inner::Generator<Short>::update | bound: tail_len0=4, 3 bytes (partial tail rewrite) | stubs: mapping + increment logging stubs
lemma_s!(s_short_4_3, GShort, sym_short, 1, 48, T_M48, 4, 3);
//@ h=s_short_4_4 props=C01,C03 cfgs=K0 tier=q t=300 | funcs: inner::Generator<Short>::update | bound: tail_len0=4, 4 bytes (full tail rewrite, boundary) | stubs: mapping + increment logging stubs
lemma_s!(s_short_4_4, GShort, sym_short, 1, 48, T_M48, 4, 4);
//@ h=s_short_4_6 props=C01,C03 cfgs=K0 tier=q t=400 | funcs: inner::Generator<Short>::update | bound: tail_len0=4, 6 bytes | stubs: mapping + increment logging stubs
lemma_s!(s_short_4_6, GShort, sym_short, 1, 48, T_M48, 4, 6);
//@ h=s_short_0_0 props=C01,C03 cfgs=K0 tier=q t=300 | funcs: inner::Generator<Short>::update | bound: tail_len0=0, empty piece | stubs: mapping + increment logging stubs
lemma_s!(s_short_0_0, GShort, sym_short, 1, 48, T_M48, 0, 0);
//@ h=s_short_0_3 props=C01,C03 cfgs=K0 tier=q t=300 | funcs: inner::Generator<Short>::update | bound: tail_len0=0, 3 bytes (tail not filled) | stubs: mapping + increment logging stubs
lemma_s!(s_short_0_3, GShort, sym_short, 1, 48, T_M48, 0, 3);
//@ h=s_short_0_4 props=C01,C03 cfgs=K0 tier=q t=300 | funcs: inner::Generator<Short>::update | bound: tail_len0=0, 4 bytes (tail exactly filled, early return) | stubs: mapping + increment logging stubs
lemma_s!(s_short_0_4, GShort, sym_short, 1, 48, T_M48, 0, 4);
//@ h=s_short_0_5 props=C01,C03 cfgs=K0 tier=q t=300 | funcs: inner::Generator<Short>::update | bound: tail_len0=0, 5 bytes (first window) | stubs: mapping + increment logging stubs
lemma_s!(s_short_0_5, GShort, sym_short, 1, 48, T_M48, 0, 5);
//@ h=s_short_0_9 props=C01,C03 cfgs=K0 tier=q t=500 | funcs: inner::Generator<Short>::update | bound: tail_len0=0, 9 bytes (fill, 5 windows, full rewrite) | stubs: mapping + increment logging stubs
lemma_s!(s_short_0_9, GShort, sym_short, 1, 48, T_M48, 0, 9);
//@ h=s_short_2_1 props=C01,C03 cfgs=K0 tier=q t=300 | funcs: inner::Generator<Short>::update | bound: tail_len0=2, 1 byte | stubs: mapping + increment logging stubs
lemma_s!(s_short_2_1, GShort, sym_short, 1, 48, T_M48, 2, 1);
//@ h=s_short_2_2 props=C01,C03 cfgs=K0 tier=q t=300 | funcs: inner::Generator<Short>::update | bound: tail_len0=2, 2 bytes (exact fill) | stubs: mapping + increment logging stubs
lemma_s!(s_short_2_2, GShort, sym_short, 1, 48, T_M48, 2, 2);
//@ h=s_short_2_3 props=C01,C03 cfgs=K0 tier=q t=300 | funcs: inner::Generator<Short>::update | bound: tail_len0=2, 3 bytes (fill + 1 window, partial rewrite) | stubs: mapping + increment logging stubs
lemma_s!(s_short_2_3, GShort, sym_short, 1, 48, T_M48, 2, 3);
//@ h=s_short_2_7 props=C01,C03 cfgs=K0 tier=q t=400 | funcs: inner::Generator<Short>::update | bound: tail_len0=2, 7 bytes | stubs: mapping + increment logging stubs
lemma_s!(s_short_2_7, GShort, sym_short, 1, 48, T_M48, 2, 7);
//@ h=s_short_1_7 props=C01,C03 cfgs=K0 tier=q t=400 | funcs: inner::Generator<Short>::update | bound: tail_len0=1, 7 bytes | stubs: mapping + increment logging stubs
lemma_s!(s_short_1_7, GShort, sym_short, 1, 48, T_M48, 1, 7);
//@ h=s_short_3_2 props=C01,C03 cfgs=K0 tier=q t=300 | funcs: inner::Generator<Short>::update | bound: tail_len0=3, 2 bytes | stubs: mapping + increment logging stubs
lemma_s!(s_short_3_2, GShort, sym_short, 1, 48, T_M48, 3, 2);
//@ h=s_short_3_6 props=C01,C03 cfgs=K0 tier=q t=400 | funcs: inner::Generator<Short>::update | bound: tail_len0=3, 6 bytes | stubs: mapping + increment logging stubs
lemma_s!(s_short_3_6, GShort, sym_short, 1, 48, T_M48, 3, 6);
// other variants: the step and one crossing each (3-byte checksum chain, 256 mapper)
//@ h=s_normal_4_1 props=C01,C03,C07 cfgs=K0,K3 tier=q t=300 | funcs: inner::Generator<Normal>::update | bound: tail_len0=4, 1 byte | stubs: mapping + increment logging stubs
lemma_s!(s_normal_4_1, GNormal, sym_normal, 1, 128, T_M256, 4, 1);
//@ h=s_normal_3_3 props=C01,C03 cfgs=K0 tier=q t=300 | funcs: inner::Generator<Normal>::update | bound: tail_len0=3, 3 bytes | stubs: mapping + increment logging stubs
lemma_s!(s_normal_3_3, GNormal, sym_normal, 1, 128, T_M256, 3, 3);
//@ h=s_normall_4_1 props=C01,C03 cfgs=K0 tier=q t=300 | funcs: inner::Generator<NormalWithLongChecksum>::update, 3-byte InnerChecksum::update | bound: tail_len0=4, 1 byte | stubs: mapping + increment logging stubs
lemma_s!(s_normall_4_1, GNormalL, sym_normal_l, 3, 128, T_M256, 4, 1);
//@ h=s_normall_0_9 props=C01,C03 cfgs=K0 tier=q t=500 | funcs: inner::Generator<NormalWithLongChecksum>::update | bound: tail_len0=0, 9 bytes | stubs: mapping + increment logging stubs
lemma_s!(s_normall_0_9, GNormalL, sym_normal_l, 3, 128, T_M256, 0, 9);
//@ h=s_long_4_2 props=C01,C03 cfgs=K0 tier=q t=300 | funcs: inner::Generator<Long>::update | bound: tail_len0=4, 2 bytes | stubs: mapping + increment logging stubs
lemma_s!(s_long_4_2, GLong, sym_long, 1, 256, T_M256, 4, 2);
//@ h=s_longl_1_8 props=C01,C03 cfgs=K0 tier=q t=500 | funcs: inner::Generator<LongWithLongChecksum>::update | bound: tail_len0=1, 8 bytes | stubs: mapping + increment logging stubs
lemma_s!(s_longl_1_8, GLongL, sym_long_l, 3, 256, T_M256, 1, 8);

// thorough tier: longer pieces and every remaining (tail, n) class on the other variants
//@ h=s_short_0_16 props=C01,C03 cfgs=K0 tier=t t=1800 | funcs: inner::Generator<Short>::update | bound: tail_len0=0, 16 bytes | stubs: mapping + increment logging stubs
lemma_s!(s_short_0_16, GShort, sym_short, 1, 48, T_M48, 0, 16);
//@ h=s_short_4_24 props=C01,C03 cfgs=K0 tier=t t=2400 | funcs: inner::Generator<Short>::update | bound: tail_len0=4, 24 bytes | stubs: mapping + increment logging stubs
lemma_s!(s_short_4_24, GShort, sym_short, 1, 48, T_M48, 4, 24);
//@ h=s_normal_0_12 props=C01,C03 cfgs=K0 tier=t t=1800 | funcs: inner::Generator<Normal>::update | bound: tail_len0=0, 12 bytes | stubs: mapping + increment logging stubs
lemma_s!(s_normal_0_12, GNormal, sym_normal, 1, 128, T_M256, 0, 12);
//@ h=s_normall_2_5 props=C01,C03 cfgs=K0 tier=t t=1800 | funcs: inner::Generator<NormalWithLongChecksum>::update | bound: tail_len0=2, 5 bytes | stubs: mapping + increment logging stubs
lemma_s!(s_normall_2_5, GNormalL, sym_normal_l, 3, 128, T_M256, 2, 5);
//@ h=s_long_0_4 props=C01,C03 cfgs=K0 tier=t t=900 | funcs: inner::Generator<Long>::update | bound: tail_len0=0, 4 bytes | stubs: mapping + increment logging stubs
lemma_s!(s_long_0_4, GLong, sym_long, 1, 256, T_M256, 0, 4);
//@ h=s_long_3_9 props=C01,C03 cfgs=K0 tier=t t=1800 | funcs: inner::Generator<Long>::update | bound: tail_len0=3, 9 bytes | stubs: mapping + increment logging stubs
lemma_s!(s_long_3_9, GLong, sym_long, 1, 256, T_M256, 3, 9);
//@ h=s_longl_4_3 props=C01,C03 cfgs=K0 tier=t t=900 | funcs: inner::Generator<LongWithLongChecksum>::update | bound: tail_len0=4, 3 bytes | stubs: mapping + increment logging stubs
lemma_s!(s_longl_4_3, GLongL, sym_long_l, 3, 256, T_M256, 4, 3);
//@ h=s_longl_0_6 props=C01,C03 cfgs=K0 tier=t t=1200 | funcs: inner::Generator<LongWithLongChecksum>::update | bound: tail_len0=0, 6 bytes | stubs: mapping + increment logging stubs
lemma_s!(s_longl_0_6, GLongL, sym_long_l, 3, 256, T_M256, 0, 6);

//@ h=c_short_4_5 props=C03 cfgs=K0 tier=q t=400 | funcs: inner::Generator<Short>::update (whole piece vs byte-by-byte with interleaved empty update) | bound: tail_len0=4, 5 bytes; real code on both sides | stubs: mapping + increment logging stubs
lemma_c!(c_short_4_5, GShort, sym_short, 4, 5);
//@ h=c_short_0_9 props=C03 cfgs=K0 tier=q t=500 | funcs: inner::Generator<Short>::update | bound: tail_len0=0, 9 bytes | stubs: mapping + increment logging stubs
lemma_c!(c_short_0_9, GShort, sym_short, 0, 9);
//@ h=c_short_2_3 props=C03 cfgs=K0 tier=q t=400 | funcs: inner::Generator<Short>::update | bound: tail_len0=2, 3 bytes | stubs: mapping + increment logging stubs
lemma_c!(c_short_2_3, GShort, sym_short, 2, 3);
//@ h=c_short_1_7 props=C03 cfgs=K0 tier=q t=500 | funcs: inner::Generator<Short>::update | bound: tail_len0=1, 7 bytes | stubs: mapping + increment logging stubs
lemma_c!(c_short_1_7, GShort, sym_short, 1, 7);
//@ h=c_normall_3_6 props=C03 cfgs=K0 tier=q t=500 | funcs: inner::Generator<NormalWithLongChecksum>::update | bound: tail_len0=3, 6 bytes | stubs: mapping + increment logging stubs
lemma_c!(c_normall_3_6, GNormalL, sym_normal_l, 3, 6);
//@ h=c_long_4_4 props=C03 cfgs=K0 tier=q t=400 | funcs: inner::Generator<Long>::update | bound: tail_len0=4, 4 bytes | stubs: mapping + increment logging stubs
lemma_c!(c_long_4_4, GLong, sym_long, 4, 4);

// ------------------------------------------------------------------ F: finalize == reference
//
// `select_nth_unstable` is replaced by an honest order-statistic model: the k-th call on the
// sub-slice starting `off` elements into the working copy returns the value of global rank
// off+index of the ORIGINAL bucket multiset (ghost copy), characterised by counting
// (#{x<q} <= rank < #{x<=q}); this is the documented contract of the std function, given that the
// earlier call partitioned the copy around its pivot.  Natively the real std function runs.

static mut GHOST: [u32; 256] = [0; 256];
static mut GHOST_N: usize = 0;
static mut FREE_MODE: bool = false;
static mut FREEQ: [u32; 3] = [0; 3];
static mut ISSUED: [(usize, u32); 8] = [(0, 0); 8];
static mut ISSUED_N: usize = 0;
static mut SEL_CALLS: usize = 0;
static mut SEL_PROBE: bool = false;
static mut SEL_BASE: *const u32 = core::ptr::null();
/// (rank requested = offset of the sub-slice in the working copy + index, value returned)
static mut SEL_LOG: [(usize, u32); 4] = [(0, 0); 4];

/// Order statistic of the ghost multiset by its defining (counting) property: the value q of
/// rank r satisfies #{x < q} <= r < #{x <= q}.  The witness is unique.  Monotonicity of order
/// statistics in the rank (a theorem, implied by the counting property) is added explicitly with
/// respect to every value handed out before, because SAT cannot derive it from the adders.
fn ghost_rank_value(rank: usize) -> u32 {
    let n = unsafe { GHOST_N };
    assert!(rank < n);
    if unsafe { FREE_MODE } {
        // over-approximation used for the 128/256-counter instances: ANY q1 <= q2 <= q3 (a
        // superset of the real order statistics); only the three ranks TLSH defines may be asked.
        let fq = unsafe { FREEQ };
        if rank == n / 4 - 1 {
            return fq[0];
        } else if rank == n / 2 - 1 {
            return fq[1];
        } else if rank == 3 * n / 4 - 1 {
            return fq[2];
        }
        panic!("order statistic of an unexpected rank requested");
    }
    let q: u32 = kani::any();
    let mut lt = 0usize;
    let mut le = 0usize;
    let mut i = 0;
    while i < n {
        let x = unsafe { GHOST[i] };
        if x < q {
            lt += 1;
        }
        if x <= q {
            le += 1;
        }
        i += 1;
    }
    kani::assume(lt <= rank && rank < le);
    let m = unsafe { ISSUED_N };
    let mut j = 0;
    while j < m {
        let (r0, v0) = unsafe { ISSUED[j] };
        if r0 <= rank {
            kani::assume(v0 <= q);
        }
        if r0 >= rank {
            kani::assume(v0 >= q);
        }
        j += 1;
    }
    unsafe {
        assert!(m < 8);
        ISSUED[m] = (rank, q);
        ISSUED_N = m + 1;
    }
    q
}

fn ghost_set(b: &[u32], n: usize) {
    let mut i = 0;
    while i < n {
        unsafe {
            GHOST[i] = b[i];
        }
        i += 1;
    }
    unsafe {
        GHOST_N = n;
        ISSUED_N = 0;
    }
}

fn stub_select<T: Ord>(s: &mut [T], index: usize) -> (&mut [T], &mut T, &mut [T]) {
    assert!(core::mem::size_of::<T>() == 4);
    let len = s.len();
    assert!(index < len); // the real function panics otherwise
    let p = s.as_mut_ptr() as *mut u32;
    unsafe {
        if SEL_PROBE {
            SEL_CALLS += 1;
        } else {
        if SEL_CALLS == 0 {
            SEL_BASE = p as *const u32;
        }
        let off = (p as *const u32).offset_from(SEL_BASE) as usize;
        let q = ghost_rank_value(off + index);
        if SEL_CALLS < 4 {
            SEL_LOG[SEL_CALLS] = (off + index, q);
        }
        SEL_CALLS += 1;
        *p.add(index) = q;
        }
    }
    let (l, r) = s.split_at_mut(index);
    let (m, r) = r.split_first_mut().unwrap();
    (l, m, r)
}

/// `true` iff the select_nth_unstable stub is in force (Kani), `false` natively.
fn select_stub_active() -> bool {
    unsafe {
        SEL_PROBE = true;
        SEL_CALLS = 0;
    }
    let mut probe = [1u32, 0u32];
    let _ = probe.select_nth_unstable(0);
    let n = unsafe { SEL_CALLS };
    unsafe {
        SEL_PROBE = false;
        SEL_CALLS = 0;
    }
    n == 1
}

/// Order statistic for the oracle side (same defining property, fresh witness).
fn oracle_rank(_b: &[u32], rank: usize) -> u32 {
    ghost_rank_value(rank)
}

/// Contract of `FuzzyHashLengthEncoding::new` (proved for all 2^32 lengths by c09_new_total and
/// c09_code_def): None above the maximum, else the unique code with ref_lo(code) <= len <= top(code).
fn stub_len_new(len: u32) -> Option<FuzzyHashLengthEncoding> {
    if len > REF_MAX_LEN {
        return None;
    }
    let code: u8 = kani::any();
    kani::assume(ref_len_code_is(len, code as usize));
    Some(FuzzyHashLengthEncoding::from_raw(code))
}

fn sym_options() -> (GeneratorOptions, bool, bool, bool, bool, bool) {
    let conservative: bool = kani::any();
    let pure_int: bool = kani::any();
    let small: bool = kani::any();
    let half: bool = kani::any();
    let quarter: bool = kani::any();
    let mut o = GeneratorOptions::new();
    o.length_processing_mode(if conservative {
        DataLengthProcessingMode::Conservative
    } else {
        DataLengthProcessingMode::Optimistic
    })
    .pure_integer_qratio_computation(pure_int)
    .allow_small_size_files(small)
    .allow_statistically_weak_buckets_half(half)
    .allow_statistically_weak_buckets_quarter(quarter);
    (o, conservative, pure_int, small, half, quarter)
}

/// What the reference says about the gates; `Ok(())` = a hash is produced.
fn ref_gates(
    total: u64, nb: usize, q3: u32, nonzero: usize, conservative: bool, small: bool, half: bool,
    quarter: bool,
) -> Result<(), GeneratorError> {
    let t32 = if total > u32::MAX as u64 { u32::MAX } else { total as u32 };
    let cls = ref_validity(t32, nb);
    if cls == 3 {
        return Err(GeneratorError::TooLargeInput);
    }
    if (cls == 0 || (cls == 1 && conservative)) && !small {
        return Err(GeneratorError::TooSmallInput);
    }
    if q3 == 0 && !quarter {
        return Err(GeneratorError::BucketsAreThreeQuarterEmpty);
    }
    let min_nonzero = if nb == 48 { 18 } else { nb / 2 + 1 };
    if nonzero < min_nonzero && !(half || quarter) {
        return Err(GeneratorError::BucketsAreHalfEmpty);
    }
    Ok(())
}

macro_rules! lemma_f {
    ($name:ident, $ty:ty, $sym:ident, $nb:literal, $sb:literal, $qbits:expr, $check_q:expr, $unw:literal, $mode:literal, $free:literal) => {
        #[kani::proof]
        #[kani::unwind($unw)]
        #[kani::stub(<[u32]>::select_nth_unstable, stub_select)]
        #[kani::stub(crate::length::FuzzyHashLengthEncoding::new, stub_len_new)]
        fn $name() {
            let stubbed = select_stub_active();
            let len: u32 = kani::any();
            let tail_len: u32 = kani::any();
            kani::assume(tail_len <= 4);
            let g: $ty = $sym(len, tail_len);
            let (o, conservative, pure_int, small, half, quarter) = sym_options();
            if $mode & 8 != 0 {
                kani::assume(pure_int);
            }
            let mut b = [0u32; $nb];
            b.copy_from_slice(&g.buckets.buckets[..$nb]);
            ghost_set(&b, $nb);
            unsafe {
                SEL_CALLS = 0;
                FREE_MODE = $free && stubbed;
                if $free {
                    // drawn natively as well, to keep the concrete-value stream of a replay aligned
                    let fq: [u32; 3] = kani::any();
                    if FREE_MODE {
                        kani::assume(fq[0] <= fq[1] && fq[1] <= fq[2]);
                        FREEQ = fq;
                    }
                }
            }
            let mut nonzero = 0usize;
            let mut i = 0;
            while i < $nb {
                if b[i] != 0 {
                    nonzero += 1;
                }
                i += 1;
            }
            let total = len as u64 + tail_len as u64;
            let before = (g.len, g.tail_len, g.tail, g.checksum);
            let r = g.finalize_with_options(&o);
            // oracle quartiles.  Under the stub: the value the order-statistic model handed to
            // the code, provided the code asked for the right rank (otherwise an independent
            // order statistic, so that a wrong rank shows up as a wrong hash).  Natively: by sorting.
            let (mut q1, mut q2, mut q3);
            if stubbed {
                let calls = unsafe { SEL_CALLS };
                let lg = unsafe { SEL_LOG };
                q2 = if calls >= 1 && lg[0].0 == $nb / 2 - 1 { lg[0].1 } else { oracle_rank(&b, $nb / 2 - 1) };
                q1 = if calls >= 2 && lg[1].0 == $nb / 4 - 1 { lg[1].1 } else { oracle_rank(&b, $nb / 4 - 1) };
                q3 = if calls >= 3 && lg[2].0 == 3 * $nb / 4 - 1 { lg[2].1 } else { oracle_rank(&b, 3 * $nb / 4 - 1) };
            } else {
                if !$free && r != Err(GeneratorError::TooLargeInput)
                    && r != Err(GeneratorError::TooSmallInput)
                {
                    // native replay: consume the three witnesses the (inactive) honest stub drew
                    let _: [u32; 3] = [kani::any(), kani::any(), kani::any()];
                }
                let mut sorted = b;
                sorted.sort_unstable();
                q1 = sorted[$nb / 4 - 1];
                q2 = sorted[$nb / 2 - 1];
                q3 = sorted[3 * $nb / 4 - 1];
            }
            if let Some(dom) = $qbits {
                if dom == 100 {
                    // structured wide domain: third quartile a power of two (division == shift)
                    kani::assume(q3.is_power_of_two());
                } else if dom == 101 {
                    // third quartile = m << s with m < 16; integer mode only
                    kani::assume(q3 != 0 && (q3 >> q3.trailing_zeros()) < 16 && pure_int);
                } else {
                    kani::assume(q3 < (1u32 << dom));
                }
            }
            let expect = ref_gates(total, $nb, q3, nonzero, conservative, small, half, quarter);
            // finalize takes &self: nothing observable changed
            assert!((g.len, g.tail_len, g.tail, g.checksum) == before);
            let kk: usize = kani::any();
            kani::assume(kk < 256);
            if kk < $nb {
                assert!(g.buckets.buckets[kk] == b[kk]);
            }
            match r {
                Err(e) => {
                    if $mode & 1 != 0 {
                        assert!(expect == Err(e));
                    }
                    // (a cover! in statically dead code counts as unsatisfied, so the Q-ratio
                    // instances, whose domain assumption excludes some errors, get trivial ones)
                    kani::cover!($mode == 0 || e == GeneratorError::TooLargeInput);
                    kani::cover!($mode == 0 || e == GeneratorError::TooSmallInput);
                    kani::cover!($mode == 0 || e == GeneratorError::BucketsAreThreeQuarterEmpty);
                    kani::cover!($mode == 0 || e == GeneratorError::BucketsAreHalfEmpty);
                }
                Ok(h) => {
                    if $mode & 1 != 0 {
                        assert!(expect.is_ok());
                    }
                    if q3 == 0 {
                        q1 = 1;
                        q2 = 1;
                        q3 = 1;
                    }
                    // checksum carried over, length code of the bytes fed
                    let code = h.length().value() as usize;
                    if $mode & 2 != 0 {
                        assert!(h.checksum().data()[..] == g.checksum.data()[..]);
                        assert!(code < 170 && ref_len_code_is(total as u32, code));
                        assert!(h.length().is_valid());
                    }
                    // body: first bucket in the low bits of the last byte, strict `>`
                    let k: usize = kani::any();
                    kani::assume(k < $sb);
                    let base = 4 * ($sb - 1 - k);
                    let e = ref_quartile(b[base], q1, q2, q3)
                        | (ref_quartile(b[base + 1], q1, q2, q3) << 2)
                        | (ref_quartile(b[base + 2], q1, q2, q3) << 4)
                        | (ref_quartile(b[base + 3], q1, q2, q3) << 6);
                    if $mode & 4 != 0 {
                        assert!(h.body().data()[k] == e);
                    }
                    if $check_q {
                        let dom = match $qbits {
                            Some(d) => d,
                            None => 0,
                        };
                        let (e1, e2) = (ref_qratio(q1, q3, pure_int, dom), ref_qratio(q2, q3, pure_int, dom));
                        assert!(h.qratios().q1ratio() == e1);
                        assert!(h.qratios().q2ratio() == e2);
                        assert!(h.qratios().value() == (e2 << 4 | e1));
                    }
                    kani::cover!(total == 4_224_281_216 && code == 169);
                    kani::cover!(q3 > 1 && q1 < q2 && q2 < q3);
                }
            }
        }
    };
}

/// u32 -> nearest f32 (ties to even), returned as the exact integer value it denotes.
fn round_to_f32_int(n: u32) -> u64 {
    if n < (1 << 24) {
        return n as u64;
    }
    let sh = 8 - n.leading_zeros(); // number of low bits that do not fit in 24 significant bits
    let lsb = 1u64 << sh;
    let rem = n as u64 & (lsb - 1);
    let base = n as u64 & !(lsb - 1);
    let half = lsb >> 1;
    if rem > half || (rem == half && (base & lsb) != 0) {
        base + lsb
    } else {
        base
    }
}

/// Reference Q ratio on the domain selected by `dom` (see lemma_f): written WITHOUT a second
/// full-width divider where the domain allows (two dividers in one query are SAT-hard).
fn ref_qratio(q: u32, q3: u32, pure_int: bool, dom: u32) -> u8 {
    if dom == 100 {
        let s = q3.trailing_zeros();
        if pure_int {
            (((q as u64 * 100) >> s) % 16) as u8
        } else {
            // legacy mode: 32-bit wrapping product, rounded to single precision, exact division
            // by 2^s, truncation
            ((round_to_f32_int(q.wrapping_mul(100)) >> s) % 16) as u8
        }
    } else if dom == 101 {
        let s = q3.trailing_zeros();
        let m = (q3 >> s) as u64;
        ((((q as u64 * 100) >> s) / m) % 16) as u8
    } else if pure_int {
        (((q as u64 * 100) / q3 as u64) % 16) as u8
    } else {
        ref_qratio_f32(q, q3)
    }
}

/// Legacy (TLSH <= 4.12.0) Q ratio: unsigned 32-bit product, single-precision division, truncation.
fn ref_qratio_f32(q: u32, q3: u32) -> u8 {
    let num = q.wrapping_mul(100) as f32;
    let den = q3 as f32;
    let quo = num / den;
    ((quo as u32) % 16) as u8
}

//@ h=f_short_main props=C01,C10,C11,C15,C03,C07,C17,C09 cfgs=K1,K3 tier=q t=900 native=native_f_short | funcs: inner::Generator<Short>::finalize_with_options, processed_len, DataLengthValidity, naive aggregate_48, FuzzyHash::from_raw | bound: ALL states: 48 symbolic u32 counters (incl. >=2^24, >=2^31), symbolic len (full u32) and tail_len<=4, symbolic checksum, all 32 option settings; gates in order, checksum, length code and body checked, state unchanged by finalize; Q-ratio value not checked here | stubs: <[u32]>::select_nth_unstable -> order statistic of the ghost copy defined by counting (+ explicit monotonicity); FuzzyHashLengthEncoding::new -> its contract (proved by c09_new_total/c09_code_def)
lemma_f!(f_short_main, GShort, sym_short, 48, 12, None::<u32>, false, 52, 7, false);
//@ h=f_normal_main props=C01,C10,C11,C15,C03 cfgs=K1 tier=q t=1500 native=native_f_normal | funcs: inner::Generator<Normal>::finalize_with_options, naive aggregate_128 | bound: as f_short_main with 128 counters, but the three quartiles are ANY q1<=q2<=q3 (superset of the real order statistics; the honest order-statistic model is used on the 48-counter instance of the same generic code) | stubs: select_nth_unstable order-statistic model; FuzzyHashLengthEncoding::new contract
lemma_f!(f_normal_main, GNormal, sym_normal, 128, 32, None::<u32>, false, 132, 7, true);
//@ h=f_normal_main_h props=C01,C10 cfgs=K1 tier=t t=3600 native=native_f_normal | funcs: inner::Generator<Normal>::finalize_with_options | bound: as f_short_main with 128 counters and the HONEST order-statistic model (quartiles tied to the counters by counting) | stubs: select_nth_unstable order-statistic model; FuzzyHashLengthEncoding::new contract
lemma_f!(f_normal_main_h, GNormal, sym_normal, 128, 32, None::<u32>, false, 132, 7, false);
//@ h=f_normall_main props=C01,C10,C11,C15 cfgs=K1 tier=t t=1800 native=native_f_normall | funcs: inner::Generator<NormalWithLongChecksum>::finalize_with_options | bound: as f_short_main with 128 counters, but the three quartiles are ANY q1<=q2<=q3 (superset of the real order statistics; the honest order-statistic model is used on the 48-counter instance of the same generic code), 3-byte checksum | stubs: select_nth_unstable order-statistic model; FuzzyHashLengthEncoding::new contract
lemma_f!(f_normall_main, GNormalL, sym_normal_l, 128, 32, None::<u32>, false, 132, 7, true);
//@ h=f_long_main props=C01,C10,C11,C15 cfgs=K1 tier=t t=3600 native=native_f_long | funcs: inner::Generator<Long>::finalize_with_options, naive aggregate_256 | bound: as f_short_main with 256 counters, but the three quartiles are ANY q1<=q2<=q3 (superset of the real order statistics) | stubs: select_nth_unstable order-statistic model; FuzzyHashLengthEncoding::new contract
lemma_f!(f_long_main, GLong, sym_long, 256, 64, None::<u32>, false, 260, 7, true);
//@ h=f_longl_main props=C01,C10,C11,C15 cfgs=K1 tier=t t=2400 native=native_f_longl | funcs: inner::Generator<LongWithLongChecksum>::finalize_with_options | bound: as f_short_main with 256 counters, but the three quartiles are ANY q1<=q2<=q3 (superset of the real order statistics), 3-byte checksum | stubs: select_nth_unstable order-statistic model; FuzzyHashLengthEncoding::new contract
lemma_f!(f_longl_main, GLongL, sym_long_l, 256, 64, None::<u32>, false, 260, 7, true);
//@ h=f_short_q8 props=C01 cfgs=K1 tier=q t=1200 native=native_f_short | funcs: inner::Generator<Short>::finalize_with_options (Q-ratio arithmetic, both modes) | bound: all states with any q1<=q2<=q3<2^8 (equivalence of two full dividers is SAT-hard beyond ~10 bits); integer mode vs the u64 formula, legacy mode vs CBMC's IEEE-754 single-precision semantics of the reference formula | stubs: select_nth_unstable -> any ordered quartiles; FuzzyHashLengthEncoding::new contract | assume: q3 < 256
lemma_f!(f_short_q8, GShort, sym_short, 48, 12, Some(8u32), true, 52, 0, true);
//@ h=f_short_qp2 props=C01 cfgs=K1 tier=q t=1800 native=native_f_short | funcs: inner::Generator<Short>::finalize_with_options (Q-ratio arithmetic at full width) | bound: any q1<=q2<=q3 with q3 a power of two up to 2^31 (counts >= 2^24 and >= 2^31 included): integer mode vs shift formula on the u64 product, legacy mode vs an integer-only model (32-bit wrapping product, round-to-nearest-even to 24 bits, exact division, truncation) | stubs: select_nth_unstable -> any ordered quartiles; FuzzyHashLengthEncoding::new contract | assume: q3 is a power of two
lemma_f!(f_short_qp2, GShort, sym_short, 48, 12, Some(100u32), true, 52, 0, true);
//@ h=f_short_qm16 props=C01 cfgs=K1 tier=t t=3600 native=native_f_short | funcs: inner::Generator<Short>::finalize_with_options (integer Q-ratio arithmetic at full width) | bound: any q1<=q2<=q3 with q3 = m<<s, m<16; integer mode only | stubs: as f_short_qp2 | assume: q3 = m << s with m < 16, integer mode
lemma_f!(f_short_qm16, GShort, sym_short, 48, 12, Some(101u32), true, 52, 0, true);
//@ h=f_short_q10 props=C01 cfgs=K1 tier=t t=3000 native=native_f_short | funcs: inner::Generator<Short>::finalize_with_options (Q-ratio arithmetic) | bound: third quartile < 2^10 | stubs: as f_short_q8 | assume: q3 < 1024
lemma_f!(f_short_q10, GShort, sym_short, 48, 12, Some(10u32), true, 52, 0, true);
//@ h=f_normal_qp2 props=C01 cfgs=K1 tier=t t=3000 native=native_f_normal | funcs: inner::Generator<Normal>::finalize_with_options (Q-ratio arithmetic at full width) | bound: q3 a power of two | stubs: as f_short_qp2 | assume: q3 is a power of two
lemma_f!(f_normal_qp2, GNormal, sym_normal, 128, 32, Some(100u32), true, 132, 0, true);
//@ h=f_long_q8 props=C01 cfgs=K1 tier=t t=3000 native=native_f_long | funcs: inner::Generator<Long>::finalize_with_options (Q-ratio arithmetic) | bound: third quartile < 2^8 | stubs: as f_short_q8 | assume: q3 < 256
lemma_f!(f_long_q8, GLong, sym_long, 256, 64, Some(8u32), true, 260, 0, true);

// ------------------------------------------------------------------ C11: length arithmetic
//
// Inductive invariant over the number of bytes fed so far (ghost u64 `fed`):
//   fed < 4  => tail_len = fed, len = 0
//   fed >= 4 => tail_len = 4,   len = min(fed - 4, 2^32 - 4)
// One update with a piece of n bytes from ANY state satisfying Inv(fed) re-establishes
// Inv(fed + n), consumes exactly the bytes that fit below the 2^32-4 mark (call trace), never
// overflows (Kani's overflow checks), and processed_len() == (fed' < 2^32 ? Some(fed') : None).
// `len` is symbolic here (whole u32 range), which makes memcpy sizes symbolic: measured 38.5 M SAT
// variables / >24 GB even with all three logging stubs, so NO instance of this macro is
// registered; the boundary is covered by the concrete-len instances `lenb_*` below.

const MAXL: u64 = (u32::MAX - 3) as u64;

macro_rules! lemma_len {
    ($name:ident, $ty:ty, $sym:ident, $ck:literal, $mtag:expr, $n:literal) => {
        #[kani::proof]
        #[kani::unwind(40)]
        #[kani::stub(crate::pearson::tlsh_b_mapping_48, stub_map48)]
        #[kani::stub(crate::pearson::tlsh_b_mapping_256, stub_map256)]
        #[kani::stub(crate::buckets::FuzzyHashBucketsData::increment, stub_inc)]
        fn $name() {
            let stubbed = stubs_active();
            let fed: u64 = kani::any();
            kani::assume(fed >= 4); // (fed < 4 is covered by the concrete-length lemmas s_*_{0..3}_*)
            let len64 = if fed - 4 < MAXL { fed - 4 } else { MAXL };
            let g0: $ty = $sym(len64 as u32, 4);
            let piece: [u8; $n] = kani::any();
            unsafe {
                RET = kani::any();
            }
            log_reset();
            let mut a = g0.clone();
            a.update(&piece);
            let room = MAXL - len64;
            let consumed: u64 = if ($n as u64) < room { $n as u64 } else { room };
            // invariant re-established for fed + n
            let fed2 = fed + $n as u64;
            let len2 = if fed2 - 4 < MAXL { fed2 - 4 } else { MAXL };
            assert!(a.len as u64 == len2);
            assert!(a.len as u64 == len64 + consumed);
            assert!(a.tail_len == 4);
            assert!(a.processed_len() == if fed2 <= u32::MAX as u64 { Some(fed2 as u32) } else { None });
            if stubbed {
                let ck0: [u8; $ck] = *g0.checksum.data();
                let mut r = RefGen::<$ck> {
                    win: g0.tail, tl: 4, ck: ck0, consumed: 0, j: 0, ok: true, mtag: $mtag,
                };
                let mut i = 0;
                while i < $n {
                    if (i as u64) < consumed {
                        r.feed(piece[i]);
                    }
                    i += 1;
                }
                assert!(r.ok);
                assert!(r.j == unsafe { LOG_N });
                assert!(a.tail == r.win);
                assert!(*a.checksum.data() == r.ck);
            }
            kani::cover!(consumed == 0 && fed > 1u64 << 33);
            kani::cover!(consumed > 0 && consumed < $n as u64);
            kani::cover!(consumed == $n as u64 && fed2 - 4 == MAXL);
        }
    };
}

// ------------------------------------------------------------------ C10: the option lattice

//@ h=c10_lattice_ref props=C10 cfgs=K1 tier=q t=300 | funcs: (reference gates only) | bound: all inputs of the gate logic: more permissive options never turn acceptance into rejection; quarter implies half. Together with f_*_main (finalize == reference for every option setting, and the hash computed from the state only) this gives the lattice property of finalize_with_options
#[kani::proof]
#[kani::unwind(4)]
fn c10_lattice_ref() {
    let total: u64 = kani::any();
    let nbsel: u8 = kani::any();
    kani::assume(nbsel < 3);
    let nb = match nbsel {
        0 => 48usize,
        1 => 128,
        _ => 256,
    };
    let q3: u32 = kani::any();
    let nonzero: usize = kani::any();
    kani::assume(nonzero <= nb);
    let (c0, s0, h0, k0): (bool, bool, bool, bool) = (kani::any(), kani::any(), kani::any(), kani::any());
    let (c1, s1, h1, k1): (bool, bool, bool, bool) = (kani::any(), kani::any(), kani::any(), kani::any());
    // o1 at least as permissive as o0
    kani::assume((!c1 || c0) && (s1 || !s0) && (h1 || !h0) && (k1 || !k0));
    let r0 = ref_gates(total, nb, q3, nonzero, c0, s0, h0, k0);
    let r1 = ref_gates(total, nb, q3, nonzero, c1, s1, h1, k1);
    if r0.is_ok() {
        assert!(r1.is_ok());
    }
    // quarter implies half
    assert!(ref_gates(total, nb, q3, nonzero, c0, s0, false, true).is_ok()
        == ref_gates(total, nb, q3, nonzero, c0, s0, true, true).is_ok());
    // too large is never waivable
    if total > REF_MAX_LEN as u64 {
        assert!(r1 == Err(GeneratorError::TooLargeInput));
    }
}

macro_rules! c10_direct {
    ($name:ident, $ty:ty, $sym:ident, $nb:literal, $unw:literal) => {
        #[kani::proof]
        #[kani::unwind($unw)]
        #[kani::stub(<[u32]>::select_nth_unstable, stub_select)]
        #[kani::stub(crate::length::FuzzyHashLengthEncoding::new, stub_len_new)]
        fn $name() {
            let stubbed = select_stub_active();
            let len: u32 = kani::any();
            let tail_len: u32 = kani::any();
            kani::assume(tail_len <= 4);
            let g: $ty = $sym(len, tail_len);
            let mut b = [0u32; $nb];
            b.copy_from_slice(&g.buckets.buckets[..$nb]);
            ghost_set(&b, $nb);
            unsafe {
                SEL_CALLS = 0;
                FREE_MODE = stubbed;
                let fq: [u32; 3] = kani::any();
                // (q3 a power of two or zero: the two calls contain two copies of the Q-ratio
                // dividers, whose equality SAT cannot prove at full width otherwise)
                kani::assume(fq[0] <= fq[1] && fq[1] <= fq[2] && (fq[2] == 0 || fq[2].is_power_of_two()));
                FREEQ = fq;
            }
            let (o0, c0, p0, s0, h0, k0) = sym_options();
            let (o1, c1, p1, s1, h1, k1) = sym_options();
            kani::assume(p0 == p1); // same Q-ratio mode
            kani::assume((!c1 || c0) && (s1 || !s0) && (h1 || !h0) && (k1 || !k0));
            let r0 = g.finalize_with_options(&o0);
            unsafe {
                SEL_CALLS = 0;
            }
            let r1 = g.finalize_with_options(&o1);
            if let Ok(h) = r0 {
                assert!(r1 == Ok(h));
            }
            kani::cover!(r0.is_err() && r1.is_ok());
            kani::cover!(r0.is_ok());
        }
    };
}
//@ h=c10_direct_short props=C10 cfgs=K1 tier=q t=1200 | funcs: inner::Generator<Short>::finalize_with_options called twice on the same state | bound: all states x all pairs of option settings o <= o' (same Q-ratio mode): Ok(h) under o => Ok(h) under o' (real code on both sides) | stubs: select_nth_unstable -> any q1<=q2<=q3 with q3 zero or a power of two (same for both calls); FuzzyHashLengthEncoding::new contract
c10_direct!(c10_direct_short, GShort, sym_short, 48, 52);

// Boundary instances with CONCRETE len = (2^32-4) - room (cheap: no symbolic memcpy sizes).
macro_rules! lemma_lenb {
    ($name:ident, $ty:ty, $sym:ident, $ck:literal, $mtag:expr, $room:literal, $n:literal) => {
        #[kani::proof]
        #[kani::unwind(40)]
        #[kani::stub(crate::pearson::tlsh_b_mapping_48, stub_map48)]
        #[kani::stub(crate::pearson::tlsh_b_mapping_256, stub_map256)]
        #[kani::stub(crate::buckets::FuzzyHashBucketsData::increment, stub_inc)]
        fn $name() {
            let stubbed = stubs_active();
            let len0: u32 = (MAXL as u32) - $room;
            let g0: $ty = $sym(len0, 4);
            let piece: [u8; $n] = kani::any();
            unsafe {
                RET = kani::any();
            }
            log_reset();
            let mut a = g0.clone();
            a.update(&piece);
            let consumed: usize = if $n < $room { $n } else { $room };
            assert!(a.len == len0 + consumed as u32);
            assert!(a.tail_len == 4);
            let fed2 = len0 as u64 + 4 + $n as u64;
            assert!(a.processed_len() == if len0 as u64 + consumed as u64 + 4 <= u32::MAX as u64 {
                Some(len0 + consumed as u32 + 4)
            } else {
                None
            });
            // (exactness w.r.t. the bytes fed: fed2 < 2^32 implies nothing was dropped)
            if fed2 <= u32::MAX as u64 {
                assert!(consumed == $n);
            } else {
                assert!(a.processed_len().is_none());
            }
            if stubbed {
                let ck0: [u8; $ck] = *g0.checksum.data();
                let mut r = RefGen::<$ck> {
                    win: g0.tail, tl: 4, ck: ck0, consumed: 0, j: 0, ok: true, mtag: $mtag,
                };
                let mut i = 0;
                while i < consumed {
                    r.feed(piece[i]);
                    i += 1;
                }
                assert!(r.ok);
                assert!(r.j == unsafe { LOG_N });
                assert!(a.tail == r.win);
                assert!(*a.checksum.data() == r.ck);
            }
        }
    };
}
//@ h=lenb_short_r0_n3 props=C11 cfgs=K0 tier=q t=600 | funcs: inner::Generator<Short>::update, processed_len | bound: len = 2^32-4 (saturated), piece of 3 bytes: nothing consumed, no wrap, processed_len None | stubs: mapping + increment logging stubs
lemma_lenb!(lenb_short_r0_n3, GShort, sym_short, 1, T_M48, 0, 3);
//@ h=lenb_short_r1_n1 props=C11 cfgs=K0 tier=q t=600 | funcs: inner::Generator<Short>::update, processed_len | bound: one byte of room, piece of 1 byte (reaches exactly 2^32 bytes fed) | stubs: mapping + increment logging stubs
lemma_lenb!(lenb_short_r1_n1, GShort, sym_short, 1, T_M48, 1, 1);
//@ h=lenb_short_r1_n3 props=C11 cfgs=K0 tier=q t=600 | funcs: inner::Generator<Short>::update, processed_len | bound: one byte of room, piece of 3 bytes (truncated to 1; partial tail rewrite) | stubs: mapping + increment logging stubs
lemma_lenb!(lenb_short_r1_n3, GShort, sym_short, 1, T_M48, 1, 3);
//@ h=lenb_short_r2_n6 props=C11 cfgs=K0 tier=q t=600 | funcs: inner::Generator<Short>::update, processed_len | bound: two bytes of room, piece of 6 bytes (truncated to 2) | stubs: mapping + increment logging stubs
lemma_lenb!(lenb_short_r2_n6, GShort, sym_short, 1, T_M48, 2, 6);
//@ h=lenb_short_r5_n5 props=C11 cfgs=K0 tier=q t=600 | funcs: inner::Generator<Short>::update, processed_len | bound: five bytes of room, piece of 5 bytes (exact fit, full tail rewrite) | stubs: mapping + increment logging stubs
lemma_lenb!(lenb_short_r5_n5, GShort, sym_short, 1, T_M48, 5, 5);
//@ h=lenb_short_r5_n4 props=C11 cfgs=K0 tier=q t=600 | funcs: inner::Generator<Short>::update, processed_len | bound: five bytes of room, piece of 4 bytes (last length with Some(2^32-1)) | stubs: mapping + increment logging stubs
lemma_lenb!(lenb_short_r5_n4, GShort, sym_short, 1, T_M48, 5, 4);
//@ h=lenb_longl_r3_n5 props=C11 cfgs=K0 tier=q t=600 | funcs: inner::Generator<LongWithLongChecksum>::update, processed_len | bound: three bytes of room, piece of 5 bytes | stubs: mapping + increment logging stubs
lemma_lenb!(lenb_longl_r3_n5, GLongL, sym_long_l, 3, T_M256, 3, 5);

//@ h=len_processed props=C11,C03,C10,C09 cfgs=K1 tier=q t=300 | funcs: inner::Generator::processed_len, Generator<T>::processed_len | bound: all (len, tail_len<=4): == checked u64 sum
#[kani::proof]
#[kani::unwind(4)]
fn len_processed() {
    let len: u32 = kani::any();
    let tl: u32 = kani::any();
    kani::assume(tl <= 4);
    let mut g = GNormal::default();
    g.len = len;
    g.tail_len = tl;
    let t = len as u64 + tl as u64;
    assert!(g.processed_len() == if t <= u32::MAX as u64 { Some(t as u32) } else { None });
    let fresh = GNormal::default();
    assert!(fresh.processed_len() == Some(0) && fresh.len == 0 && fresh.tail_len == 0);
    let k: usize = kani::any();
    kani::assume(k < fresh.buckets.buckets.len());
    assert!(fresh.buckets.buckets[k] == 0);
    assert!(*fresh.checksum.data() == [0]);
    assert!(<GNormal as GeneratorType>::MAX == REF_MAX_LEN && <GNormal as GeneratorType>::MIN == 50
        && <GNormal as GeneratorType>::MIN_CONSERVATIVE == 128);
    assert!(<GShort as GeneratorType>::MIN == 10 && <GShort as GeneratorType>::MIN_CONSERVATIVE == 10
        && <GShort as GeneratorType>::MAX == REF_MAX_LEN);
    assert!(<GLong as GeneratorType>::MIN == 50 && <GLong as GeneratorType>::MIN_CONSERVATIVE == 128
        && <GLong as GeneratorType>::MAX == REF_MAX_LEN);
}

//@ h=c03_clone props=C03 cfgs=K1 tier=q t=300 | funcs: <inner::Generator<...> as Clone>::clone, Generator<T>::clone (public wrapper) | bound: arbitrary state of the 3-byte-checksum 256-bucket generator: the clone is field-wise identical (symbolic counter index) and later updates of the clone do not touch the original
#[kani::proof]
#[kani::unwind(12)]
#[kani::stub(crate::pearson::tlsh_b_mapping_48, stub_map48)]
#[kani::stub(crate::pearson::tlsh_b_mapping_256, stub_map256)]
#[kani::stub(crate::buckets::FuzzyHashBucketsData::increment, stub_inc)]
fn c03_clone() {
    let g = sym_long_l(1000, 4);
    let mut c = g.clone();
    let k: usize = kani::any();
    kani::assume(k < g.buckets.buckets.len());
    assert!(c.buckets.buckets[k] == g.buckets.buckets[k]);
    assert!(c.len == g.len && c.tail_len == g.tail_len && c.tail == g.tail && c.checksum == g.checksum);
    let before = (g.len, g.tail, g.checksum);
    unsafe {
        RET = kani::any();
    }
    log_reset();
    let piece: [u8; 2] = kani::any();
    c.update(&piece);
    assert!((g.len, g.tail, g.checksum) == before);
    assert!(g.buckets.buckets[k] == c.buckets.buckets[k]); // (increment is a logging stub here)
    assert!(c.len == g.len + 2);
}

//@ h=c11_init_state props=C11,C03 cfgs=K1 tier=q t=300 | funcs: Default for inner::Generator (all five variants), Generator<T>::new | bound: base case of the length induction: a new generator has len == 0, tail_len == 0, every counter 0 (symbolic index) and processed_len() == Some(0); no input
#[kani::proof]
#[kani::unwind(260)]
fn c11_init_state() {
    macro_rules! one {
        ($ty:ty) => {{
            let g = <$ty>::default();
            let k: usize = kani::any();
            kani::assume(k < g.buckets.buckets.len());
            assert!(g.len == 0 && g.tail_len == 0 && g.buckets.buckets[k] == 0);
            assert!(g.processed_len() == Some(0));
        }};
    }
    one!(GShort);
    one!(GNormal);
    one!(GNormalL);
    one!(GLong);
    one!(GLongL);
    let w = Generator::<crate::hashes::Normal>::new();
    assert!(w.inner.len == 0 && w.inner.tail_len == 0);
    assert!(w.processed_len() == Some(0));
}

// ------------------------------------------------------------------ C18: generator never allocates
unsafe fn no_alloc(_l: core::alloc::Layout) -> *mut u8 {
    assert!(false, "heap allocation reached");
    core::ptr::null_mut()
}
unsafe fn no_realloc(_p: *mut u8, _l: core::alloc::Layout, _n: usize) -> *mut u8 {
    assert!(false, "heap reallocation reached");
    core::ptr::null_mut()
}

macro_rules! c18_gen {
    ($name:ident, $pubty:ty, $n:literal, $nb:literal, $unw:literal) => {
        #[kani::proof]
        #[kani::unwind($unw)]
        #[kani::stub(std::alloc::alloc, no_alloc)]
        #[kani::stub(std::alloc::alloc_zeroed, no_alloc)]
        #[kani::stub(std::alloc::realloc, no_realloc)]
        #[kani::stub(<[u32]>::select_nth_unstable, stub_select)]
        #[kani::stub(crate::length::FuzzyHashLengthEncoding::new, stub_len_new)]
        #[kani::stub(crate::pearson::tlsh_b_mapping_48, stub_map48)]
        #[kani::stub(crate::pearson::tlsh_b_mapping_256, stub_map256)]
        #[kani::stub(crate::buckets::FuzzyHashBucketsData::increment, stub_inc)]
        fn $name() {
            // new, update (two pieces), processed_len, clone, finalize_with_options: public wrapper
            let mut g = Generator::<$pubty>::new();
            unsafe {
                RET = kani::any();
            }
            log_reset();
            let p1: [u8; $n] = kani::any();
            let p2: [u8; 3] = kani::any();
            let allocs_before = crate::verif::allocv::native_allocs();
            g.update(&p1);
            g.update(&p2);
            assert!(crate::verif::allocv::native_allocs() == allocs_before, "heap allocation during update");
            assert!(g.processed_len() == Some($n + 3));
            let c = g.clone();
            unsafe {
                GHOST_N = $nb;
                SEL_CALLS = 0;
                FREE_MODE = true;
                let fq: [u32; 3] = kani::any();
                kani::assume(fq[0] <= fq[1] && fq[1] <= fq[2]);
                FREEQ = fq;
            }
            let (o, _c, _p, _s, _h, _k) = sym_options();
            let r = c.finalize_with_options(&o);
            let r2 = g.finalize();
            assert!(crate::verif::allocv::native_allocs() == allocs_before, "heap allocation during generator operations");
            kani::cover!(r.is_ok());
            kani::cover!(r.is_err());
            core::mem::forget((r, r2));
        }
    };
}
//@ h=c18_gen_short props=C18,C17 cfgs=K1 tier=q t=1800 native=native_c18_gen | funcs: Generator<Short>::{new, update, processed_len, clone, finalize_with_options, finalize} (public wrapper types) | bound: pieces of 6 and 3 bytes (any content), all option settings: allocator never reached, no panic | stubs: allocator entry points -> assert!(false); select_nth_unstable (core, cannot allocate) -> any ordered quartiles; mapping/increment logging stubs; FuzzyHashLengthEncoding::new contract
c18_gen!(c18_gen_short, crate::hashes::Short, 6, 48, 52);
//@ h=c18_gen_longl props=C18,C17 cfgs=K1 tier=q t=1800 native=native_c18_gen | funcs: Generator<LongWithLongChecksum>::{new, update, processed_len, clone, finalize_with_options, finalize} | bound: pieces of 5 and 3 bytes, all option settings | stubs: as c18_gen_short
c18_gen!(c18_gen_longl, crate::hashes::LongWithLongChecksum, 5, 256, 260);
//@ h=c18_gen_normal props=C18,C17 cfgs=K1 tier=q t=1800 native=native_c18_gen | funcs: Generator<Normal>::{new, update, processed_len, clone, finalize_with_options, finalize} | bound: pieces of 7 and 3 bytes, all option settings | stubs: as c18_gen_short
c18_gen!(c18_gen_normal, crate::hashes::Normal, 7, 128, 132);

// ------------------------------------------------------------------ native confirmation of F
//
// Kani's playback generator cannot hold the counterexample trace of the finalize lemmas in memory
// (>52 GB), so a failing `f_*` harness is confirmed natively by this sweep instead: the real
// `finalize_with_options` against the full reference (quartiles by sorting, gates, length code,
// Q ratios in both modes, body) over all 32 option settings x boundary lengths x bucket patterns.
#[cfg(test)]
fn native_ref_len_code(total: u32) -> u8 {
    let mut i = 0;
    while i < 170 {
        if total <= REF_TOPVAL[i] {
            return i as u8;
        }
        i += 1;
    }
    255
}

#[cfg(test)]
macro_rules! native_f {
    ($name:ident, $ty:ty, $nb:literal, $sb:literal, $ck:literal) => {
        #[test]
        fn $name() {
            let lens: [(u32, u32); 22] = [
                (0, 0), (0, 3), (0, 4), (5, 4), (6, 4), (45, 4), (46, 4), (123, 4), (124, 4),
                (125, 4), (1000, 4), (4_224_281_211, 4), (4_224_281_212, 4), (4_224_281_213, 4),
                (u32::MAX - 7, 4), (u32::MAX - 4, 4), (u32::MAX - 3, 4), (u32::MAX - 3, 0),
                (16_777_300, 4), (2_147_483_700, 4), (100, 4), (127, 1),
            ];
            let mut pats: Vec<[u32; $nb]> = Vec::new();
            pats.push([0; $nb]);
            pats.push([1; $nb]);
            let mut ramp = [0u32; $nb];
            let mut sparse = [0u32; $nb];
            let mut huge = [0u32; $nb];
            let mut mixed = [0u32; $nb];
            for i in 0..$nb {
                ramp[i] = i as u32;
                sparse[i] = if i % 3 == 0 { (i as u32 * 7919) % 97 + 1 } else { 0 };
                huge[i] = 0x0100_0000u32.wrapping_mul(i as u32 + 1).wrapping_add(0x7fff_fff0);
                mixed[i] = if i < $nb / 2 { 43_000_000 + i as u32 } else { 90_000_000 + 3 * i as u32 };
            }
            pats.push(ramp);
            pats.push(sparse);
            pats.push(huge);
            pats.push(mixed);
            for pat in pats.iter() {
                for &(len, tl) in lens.iter() {
                    for opt in 0..32u32 {
                        let (cons, pint, small, half, quarter) =
                            (opt & 1 != 0, opt & 2 != 0, opt & 4 != 0, opt & 8 != 0, opt & 16 != 0);
                        let mut g = <$ty>::default();
                        g.buckets.buckets[..$nb].copy_from_slice(pat);
                        g.len = len;
                        g.tail_len = tl;
                        g.checksum = FuzzyHashChecksumData::from_raw(&[0x21; $ck]);
                        let mut o = GeneratorOptions::new();
                        o.length_processing_mode(if cons {
                            DataLengthProcessingMode::Conservative
                        } else {
                            DataLengthProcessingMode::Optimistic
                        })
                        .pure_integer_qratio_computation(pint)
                        .allow_small_size_files(small)
                        .allow_statistically_weak_buckets_half(half)
                        .allow_statistically_weak_buckets_quarter(quarter);
                        let r = g.finalize_with_options(&o);
                        let mut sorted = *pat;
                        sorted.sort_unstable();
                        let (mut q1, mut q2, mut q3) =
                            (sorted[$nb / 4 - 1], sorted[$nb / 2 - 1], sorted[3 * $nb / 4 - 1]);
                        let nonzero = pat.iter().filter(|&&x| x != 0).count();
                        let total = len as u64 + tl as u64;
                        let expect = ref_gates(total, $nb, q3, nonzero, cons, small, half, quarter);
                        match (r, expect) {
                            (Err(e), Err(x)) => assert_eq!(e, x, "len {len}+{tl} opt {opt:#x}"),
                            (Ok(h), Ok(())) => {
                                if q3 == 0 {
                                    q1 = 1;
                                    q2 = 1;
                                    q3 = 1;
                                }
                                assert_eq!(h.checksum().data()[..], [0x21u8; $ck][..]);
                                assert_eq!(h.length().value(), native_ref_len_code(total as u32));
                                let (e1, e2) = (ref_qratio(q1, q3, pint, 0), ref_qratio(q2, q3, pint, 0));
                                assert_eq!(h.qratios().value(), e2 << 4 | e1, "len {len}+{tl} opt {opt:#x}");
                                for k in 0..$sb {
                                    let base = 4 * ($sb - 1 - k);
                                    let e = ref_quartile(pat[base], q1, q2, q3)
                                        | (ref_quartile(pat[base + 1], q1, q2, q3) << 2)
                                        | (ref_quartile(pat[base + 2], q1, q2, q3) << 4)
                                        | (ref_quartile(pat[base + 3], q1, q2, q3) << 6);
                                    assert_eq!(h.body().data()[k], e);
                                }
                            }
                            (a, b) => panic!("len {len}+{tl} opt {opt:#x}: got {a:?}, reference {b:?}"),
                        }
                    }
                }
            }
        }
    };
}
#[cfg(test)]
native_f!(native_f_short, GShort, 48, 12, 1);
#[cfg(test)]
native_f!(native_f_normal, GNormal, 128, 32, 1);
#[cfg(test)]
native_f!(native_f_normall, GNormalL, 128, 32, 3);
#[cfg(test)]
native_f!(native_f_long, GLong, 256, 64, 1);
#[cfg(test)]
native_f!(native_f_longl, GLongL, 256, 64, 3);

/// Native side of run/mirq.py (MIR -> SMT check of the Q-ratio arithmetic at full width).
///
/// Runs the REAL `finalize_with_options` of three variants on generator states whose three order
/// statistics are the given `(q1, q2, q3)` (all permissive flags on, so that `q3 == 0` takes the
/// dummy-quartile path), prints `QR q1 q2 q3 pure_int value` for the translator validation, and
/// compares with the hand-written reference `ref_qratio` (the replay of a solver counterexample:
/// a mismatch panics).  The triples come from `VERIF_QR` ("q1,q2,q3,pure_int;...") or, when it is
/// not set, from a fixed table that includes counts >= 2^24, >= 2^31 and a wrapping product.
#[cfg(test)]
#[test]
fn native_qr_replay() {
    let mut triples: Vec<(u32, u32, u32, bool)> = Vec::new();
    if let Ok(v) = std::env::var("VERIF_QR") {
        for item in v.split(';').filter(|x| !x.is_empty()) {
            let f: Vec<&str> = item.split(',').collect();
            triples.push((
                f[0].trim().parse().unwrap(),
                f[1].trim().parse().unwrap(),
                f[2].trim().parse().unwrap(),
                f[3].trim() == "1" || f[3].trim() == "true",
            ));
        }
    } else {
        let base: [(u32, u32, u32); 20] = [
            (0, 0, 0), (0, 0, 1), (1, 1, 1), (1, 2, 3), (3, 5, 7), (10, 20, 30), (41, 41, 41),
            (49, 98, 147), (100, 200, 255), (1000, 2000, 3001), (16_777_215, 16_777_216, 16_777_217),
            (16_777_300, 33_554_500, 50_000_001), (42_949_672, 42_949_673, 42_949_674),
            (43_000_000, 90_000_000, 123_456_789), (126_163_947, 133_037_356, 137_134_337),
            (672_415_810, 1_460_289_056, 1_610_612_800), (2_147_483_647, 2_147_483_648, 2_147_483_649),
            (2_188_420_055, 2_197_815_335, 4_093_640_832), (4_294_967_293, 4_294_967_294, 4_294_967_295),
            (25_886_566, 555_728_982, 673_554_379),
        ];
        for &(a, b, c) in base.iter() {
            triples.push((a, b, c, false));
            triples.push((a, b, c, true));
        }
    }
    macro_rules! one {
        ($ty:ty, $nb:literal, $q1:expr, $q2:expr, $q3:expr, $pint:expr) => {{
            let mut g = <$ty>::default();
            for i in 0..$nb {
                g.buckets.buckets[i] = if i < $nb / 4 {
                    $q1
                } else if i < $nb / 2 {
                    $q2
                } else {
                    $q3
                };
            }
            g.len = 1000;
            g.tail_len = 4;
            let mut o = GeneratorOptions::new();
            o.length_processing_mode(DataLengthProcessingMode::Optimistic)
                .pure_integer_qratio_computation($pint)
                .allow_small_size_files(true)
                .allow_statistically_weak_buckets_half(true)
                .allow_statistically_weak_buckets_quarter(true);
            g.finalize_with_options(&o).expect("all permissive flags are on").qratios().value()
        }};
    }
    for &(q1, q2, q3, pint) in triples.iter() {
        assert!(q1 <= q2 && q2 <= q3, "quartiles must be ordered");
        let v = one!(GShort, 48, q1, q2, q3, pint);
        println!("QR {} {} {} {} {}", q1, q2, q3, pint as u8, v);
        let (r1, r2, r3) = if q3 == 0 { (1, 1, 1) } else { (q1, q2, q3) };
        let e = ref_qratio(r2, r3, pint, 0) << 4 | ref_qratio(r1, r3, pint, 0);
        assert_eq!(v, e, "Q ratios of ({q1},{q2},{q3}) pure_int={pint}: real code {v:#x}, reference {e:#x}");
        assert_eq!(one!(GNormal, 128, q1, q2, q3, pint), e, "Normal ({q1},{q2},{q3}) {pint}");
        assert_eq!(one!(GLong, 256, q1, q2, q3, pint), e, "Long ({q1},{q2},{q3}) {pint}");
    }
}

/// Native side of run/mirq.py, C11 instance (length arithmetic of `update` at full width): runs the
/// REAL `update` once from the state `(len, tail_len)` with a zero-filled slice of `n` bytes (the
/// allocation is lazily mapped, so multi-GiB slices cost nothing until they are hashed), prints
/// `LN len tail_len n len' tail_len'` for the translator validation and compares with the length
/// invariant of C11: `len' + tail_len' == min(len + tail_len + n, 2^32)`, `tail_len' == min(tail_len
/// + n, 4)`, and `processed_len()` is `Some` exactly below 2^32.  Triples come from `VERIF_LEN`
/// ("len,tail_len,n;...") or from a fixed table around the 2^32-4 saturation mark.
#[cfg(test)]
#[test]
fn native_len_replay() {
    const MAXL: u64 = (u32::MAX - 3) as u64;
    let mut triples: Vec<(u32, u32, u64)> = Vec::new();
    if let Ok(v) = std::env::var("VERIF_LEN") {
        for item in v.split(';').filter(|x| !x.is_empty()) {
            let f: Vec<&str> = item.split(',').collect();
            triples.push((f[0].trim().parse().unwrap(), f[1].trim().parse().unwrap(), f[2].trim().parse().unwrap()));
        }
    } else {
        let m = MAXL as u32;
        triples.extend_from_slice(&[
            (0, 0, 0), (0, 0, 3), (0, 0, 4), (0, 0, 5), (0, 2, 1), (0, 2, 2), (0, 2, 3), (0, 2, 9),
            (0, 3, 1), (0, 4, 0), (0, 4, 1), (0, 4, 11), (100, 4, 50), (1_000_000, 4, 4096),
            (m - 10, 4, 5), (m - 10, 4, 10), (m - 10, 4, 11), (m - 10, 4, 4096), (m - 1, 4, 1),
            (m - 1, 4, 2), (m, 4, 0), (m, 4, 7), (m - 3, 4, (1u64 << 32) + 10), (m - 100, 4, 1u64 << 32),
            (m, 4, (1u64 << 32) + 1), (m - 70_000, 4, 65_536), (m - 70_000, 4, 70_001),
        ]);
    }
    for &(len, tl, n) in triples.iter() {
        assert!(tl <= 4 && len as u64 <= MAXL && (tl == 4 || len == 0), "not a state of the invariant");
        let mut g = GShort::default();
        g.len = len;
        g.tail_len = tl;
        let data = vec![0u8; n as usize];
        g.update(&data);
        println!("LN {} {} {} {} {}", len, tl, n, g.len, g.tail_len);
        let tot = core::cmp::min(len as u128 + tl as u128 + n as u128, 1u128 << 32);
        let etl = core::cmp::min(tl as u128 + n as u128, 4);
        assert_eq!(g.tail_len as u128, etl, "tail_len after update from ({len},{tl}) with {n} bytes");
        assert_eq!(g.len as u128, tot - etl, "len after update from ({len},{tl}) with {n} bytes");
        assert_eq!(g.processed_len(), if tot < (1u128 << 32) { Some(tot as u32) } else { None });
        // the same on a 128-bucket variant (shared generic code)
        let mut h = GNormal::default();
        h.len = len;
        h.tail_len = tl;
        if n <= (1 << 20) || len as u64 >= MAXL - (1 << 20) {
            h.update(&data);
            assert_eq!((h.len, h.tail_len), (g.len, g.tail_len));
        }
    }
}

/// Native confirmation for `c18_gen_*` (fast path instead of Kani's playback generator, which
/// needs tens of minutes for the 256-bucket instance): the generator operations of all five
/// variants under the counting allocator of the replay build.
#[cfg(test)]
#[test]
fn native_c18_gen() {
    macro_rules! one {
        ($t:ty) => {{
            let before = crate::verif::allocv::native_allocs();
            let mut g = Generator::<$t>::new();
            g.update(&[1, 2, 3, 4, 5, 6]);
            g.update(&[7, 8, 9]);
            g.update(&[]);
            let _ = g.processed_len();
            let c = g.clone();
            let mut opt = 0u32;
            while opt < 32 {
                let mut o = GeneratorOptions::new();
                o.length_processing_mode(if opt & 1 != 0 {
                    DataLengthProcessingMode::Conservative
                } else {
                    DataLengthProcessingMode::Optimistic
                })
                .pure_integer_qratio_computation(opt & 2 != 0)
                .allow_small_size_files(opt & 4 != 0)
                .allow_statistically_weak_buckets_half(opt & 8 != 0)
                .allow_statistically_weak_buckets_quarter(opt & 16 != 0);
                let r = c.finalize_with_options(&o);
                core::mem::forget(r);
                opt += 1;
            }
            let r = g.finalize();
            core::mem::forget(r);
            assert_eq!(crate::verif::allocv::native_allocs(), before, "heap allocation in generator operations");
        }};
    }
    one!(crate::hashes::Short);
    one!(crate::hashes::Normal);
    one!(crate::hashes::NormalWithLongChecksum);
    one!(crate::hashes::Long);
    one!(crate::hashes::LongWithLongChecksum);
}

// C02/C07: SSE4.1 body-distance backend (child module of dist_body::x86_sse4_1; K6/K9 only).
#![allow(missing_docs)]
#![allow(clippy::all)]
#![allow(unused_imports)]
#![allow(unsafe_code)]

use super::*;
use crate::verif::refmodel::*;

//@ h=k_sse41_lane props=C02,C07,C17 cfgs=K6 tier=q t=900 | funcs: x86_sse4_1::packed_distance_as_u32x4 | bound: all pairs of 128-bit vectors, symbolic lane: 32-bit lane l == reference distance of exactly bytes 4l..4l+3, <= 96
#[kani::proof]
#[kani::unwind(4)]
fn k_sse41_lane() {
    let xb: [u8; 16] = kani::any();
    let yb: [u8; 16] = kani::any();
    let r: [u32; 4] = unsafe {
        let x: __m128i = core::mem::transmute(xb);
        let y: __m128i = core::mem::transmute(yb);
        core::mem::transmute(packed_distance_as_u32x4(x, y))
    };
    let l: usize = kani::any();
    kani::assume(l < 4);
    let e = ref_dist_body_byte(xb[4 * l], yb[4 * l])
        + ref_dist_body_byte(xb[4 * l + 1], yb[4 * l + 1])
        + ref_dist_body_byte(xb[4 * l + 2], yb[4 * l + 2])
        + ref_dist_body_byte(xb[4 * l + 3], yb[4 * l + 3]);
    assert!(r[l] == e);
    assert!(r[l] <= 96);
    kani::cover!(r[l] == 96);
}

fn lanes(xb: &[u8], yb: &[u8]) -> [u32; 4] {
    let mut x = [0u8; 16];
    let mut y = [0u8; 16];
    x.copy_from_slice(xb);
    y.copy_from_slice(yb);
    unsafe {
        core::mem::transmute(packed_distance_as_u32x4(core::mem::transmute(x), core::mem::transmute(y)))
    }
}

//@ h=k_sse41_d32 props=C02,C07,C17 cfgs=K6 tier=q t=1800 | funcs: x86_sse4_1::distance_32 | bound: all pairs of 32-byte bodies: == sum of all 8 lanes of the real kernel
#[kani::proof]
#[kani::unwind(20)]
fn k_sse41_d32() {
    let a: [u8; 32] = kani::any();
    let b: [u8; 32] = kani::any();
    let d = unsafe { distance_32(&a, &b) };
    let p1 = lanes(&a[..16], &b[..16]);
    let p2 = lanes(&a[16..], &b[16..]);
    let mut s = 0u32;
    let mut i = 0;
    while i < 4 {
        s += p1[i] + p2[i];
        i += 1;
    }
    assert!(d == s);
}

//@ h=k_sse41_d64 props=C02,C07,C17 cfgs=K6 tier=q t=2400 | funcs: x86_sse4_1::distance_64 | bound: all pairs of 64-byte bodies: == sum of all 16 lanes of the real kernel
#[kani::proof]
#[kani::unwind(20)]
fn k_sse41_d64() {
    let a: [u8; 64] = kani::any();
    let b: [u8; 64] = kani::any();
    let d = unsafe { distance_64(&a, &b) };
    let mut s = 0u32;
    let mut c = 0;
    while c < 4 {
        let p = lanes(&a[16 * c..16 * c + 16], &b[16 * c..16 * c + 16]);
        let mut i = 0;
        while i < 4 {
            s += p[i];
            i += 1;
        }
        c += 1;
    }
    assert!(d == s);
}

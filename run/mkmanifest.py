#!/usr/bin/env python3
"""Regenerates /verif/MANIFEST.json from the table below + the harness registry."""
import json
import os
import sys

sys.path.insert(0, os.path.dirname(os.path.abspath(__file__)))
import vf  # noqa: E402

VERIF = vf.VERIF

# property -> (level text, level note, technique, design_ref)
CLAIMS = {
    "C09": (
        "Bounded model checking of the real length-code functions over ALL 2^32 lengths and all "
        "256 codes at once (symbolic u32 / symbolic code index): totality, defining property of the "
        "code against an independent pinned copy of the 170-entry table, monotonicity, range() "
        "tiling, and the table-slice invariants handed to the optimiser under feature `unsafe`. "
        "The only loop (binary search) is fully unwound (unwinding assertion on), so within these "
        "functions the result is not bounded in input size.",
        "Trusted: Kani's MIR->goto translation, CBMC 6.11 + CaDiCaL, the pinned reference copy of "
        "the TLSH topval table (provenance in harness/refmodel.rs). `generated hash carries the "
        "code of the bytes fed' is discharged by the finalize lemma listed under C01/C11.",
        "Kani/CBMC bounded model checking (SAT) of compiled MIR, symbolic inputs",
        "DESIGN.md section 5, C09",
    ),
}

NOT_YET = "check not built yet in this round (see DESIGN.md section 5 for the plan)"


def main():
    reg = vf.load_registry()
    props = [json.loads(l)["id"] for l in open(os.path.join(VERIF, "properties.jsonl"))]
    checks = []
    na = []
    for p in props:
        hs = [h for h in reg if p in h.props]
        if p in CLAIMS and hs:
            text, note, tech, ref = CLAIMS[p]
            checks.append({
                "property_id": p,
                "quick_cmd": "python3 run/vf.py check %s --tier quick" % p,
                "thorough_cmd": "python3 run/vf.py check %s --tier thorough" % p,
                "evidence_file": "/verif/evidence/%s.json" % p,
                "replay_cmd_template": "python3 run/vf.py replay {path}",
                "engine": "kani-cbmc",
                "level_claimed": {"category": "model_checking", "text": text, "design_ref": ref},
                "level_note": note,
                "technique": tech,
            })
        else:
            na.append({"property_id": p, "reason": NA.get(p, NOT_YET)})
    man = {
        "version": 1,
        "setup_cmd": "python3 run/vf.py setup",
        "hooks": {
            "guard": "kani",
            "enable": "no source commits: every check copies /repo/fast-tlsh's working tree to a "
                      "scratch overlay, appends `#[cfg(kani)] mod ...;` lines and runs `cargo kani` "
                      "(which sets --cfg kani) on the copy",
            "baseline_off_cmd": "cd /repo && cargo test --workspace --no-fail-fast --offline",
            "source_commits": [],
            "add_only": True,
        },
        "engines": [{
            "name": "kani-cbmc",
            "path": "/verif/run/vf.py",
            "serves_properties": [c["property_id"] for c in checks],
            "kind_free_text": "Kani 0.68 (MIR -> goto) + CBMC 6.11 + CaDiCaL bounded model checking "
                              "of the real crate code with symbolic inputs; native replay of every "
                              "counterexample through `cargo kani playback`",
        }],
        "checks": checks,
        "not_applicable": na,
        "notes": "Exit 2 of a check means `not decided' (build error, time-out, OOM, unwinding "
                 "bound too small, vacuous harness, non-reproducing counterexample); it is never "
                 "reported as success.",
    }
    json.dump(man, open(os.path.join(VERIF, "MANIFEST.json"), "w"), indent=1)
    print("MANIFEST.json: %d checks, %d not_applicable" % (len(checks), len(na)))


NA = {}

if __name__ == "__main__":
    main()

#!/usr/bin/env python3
"""Regenerates /verif/MANIFEST.json from the table below + the harness registry."""
import json
import os
import sys

sys.path.insert(0, os.path.dirname(os.path.abspath(__file__)))
import vf  # noqa: E402

VERIF = vf.VERIF

# property -> (level text, level note, technique, design_ref)
CLAIMS = {
    'C01': (
        'Every step of the generator is decided by the solver against an independent reference model, as a chain of lemmas over the real code: (P) both bucket-mapping functions == reference Pearson chain for all 2^32 inputs, in the table and table-less configurations; (K) checksum update == reference with the real mapping; (I) increment touches exactly one counter, wrapping, for arbitrary counter values; (S) update(piece) produces exactly the call trace TLSH defines (salts, byte pairing, order, checksum chain, window shift) from an arbitrary generator state, for concrete tail fill 0..4 and piece lengths up to 9 with symbolic contents; (F) finalize_with_options == reference on ALL states (symbolic u32 counters incl. >=2^24/2^31, full-range length, all 32 option settings): gate order, checksum, length code, body (naive aggregation; with the default features: the run-time dispatch ladder for every detection outcome and each SSE2/SSSE3/AVX2 aggregation backend == packed reference dibits for all counters and ordered quartiles); (Q) Q-ratio arithmetic in both modes on q3<2^8 and, at full width, on q3 a power of two; (Q*) the same arithmetic for ALL 2^96 quartile triples and both modes by a second back end: the MIR of finalize_with_options (slice from the last select_nth_unstable to aggregate_buckets, every path) translated to SMT-LIB2 bit-vector + Float32 terms and compared with the hand-written reference formulas by z3 and cvc5, including that body and Q ratios use the same quartiles and that the product cannot overflow nor the divisor be zero. The composition (induction over the byte stream; re-indexing) is written in DESIGN.md and is not machine-checked.',
        "Trusted: Kani's MIR->goto translation, CBMC 6.11 + CaDiCaL, the reference model in harness/refmodel.rs (independent table copies), the stubs listed per harness in the evidence (each a model of an unsupported intrinsic, a proved contract, or a caller-supplied trait impl). Bounds: piece length <= 9 per update call (any number of calls by induction from an arbitrary state); select_nth_unstable replaced by its documented contract (order statistic; honest counting model on 48 buckets, any ordered triple on 128/256); Q-ratio values in Kani only on the stated domains (legacy float mode relies on CBMC's IEEE-754 semantics and an integer model of u32->f32 rounding); at full width by the MIR->SMT instance, which trusts rustc's MIR dump, my MIR->SMT-LIB translator (validated in the thorough tier against the real code on 40 quartile triples; statements outside its fragment are havocked = over-approximated), SMT-LIB FloatingPoint semantics for Rust f32, and z3 4.8.12 / cvc5 1.0.3 (a definite answer contradicted by no solver configuration; unknown or error = undecided).",
        'Kani/CBMC bounded model checking (SAT) of the compiled MIR with symbolic inputs; lemma decomposition; plus symbolic execution of the nightly MIR dump into SMT-LIB2 (bit-vectors + IEEE-754) decided by z3 and cvc5 for the loop-free Q-ratio slice; native replay of counterexamples',
        'DESIGN.md section 5, C01',
    ),
    'C02': (
        'The distance is decided part by part for ALL hash values: each body kernel (32/64-bit pseudo-SIMD, and per lane SSE2/SSE4.1/AVX2) == sum of reference dibit distances over exactly its own bytes for all pairs of chunks; each distance_12/32/64 of each backend == sum of its kernel over the right chunks (SIMD: kernel stubbed, arbitrary bounded lanes, so a lane-width overflow in the horizontal sum is a counterexample); the entry points select the proved backend; Q-ratio, length and checksum distances == reference for all 2^16 pairs in every table configuration; compare_with_config == sum of the four parts for all pairs of values, both modes, all five variants.',
        "Trusted: Kani's MIR->goto translation, CBMC 6.11 + CaDiCaL, the reference model in harness/refmodel.rs (independent table copies), the stubs listed per harness in the evidence (each a model of an unsupported intrinsic, a proved contract, or a caller-supplied trait impl). Sums are composed by hand (kernel lemma + structure lemma). SIMD harnesses call each x86 backend directly; packed add/sub/mullo intrinsics are replaced by lane-wise wrapping models because Kani's overflow instrumentation would drop wrapping executions. Runtime dispatch: the ladder is decided with the detection queries stubbed (body_ladder_*); cpuid itself is not executed.",
        'Kani/CBMC bounded model checking (SAT) of the compiled MIR with symbolic inputs; lemma decomposition; native replay of counterexamples',
        'DESIGN.md section 5, C02',
    ),
    'C03': (
        'update(piece) is compared, on the real code on both sides, with feeding the same bytes one at a time (with interleaved empty pieces) from an arbitrary symbolic generator state, for every class of (buffered tail bytes 0..4, piece length) the code distinguishes; and against the specified call trace (lemma S of C01). finalize_with_options is shown to leave every field of an arbitrary state unchanged (it takes &self; asserted field-wise), processed_len == checked sum for all states, and clone is field-wise identity by derive. Independence of chunking for whole histories follows by induction, written in DESIGN.md. For pieces of ANY length (below 2^63, incl. >= 4 GiB) the reported-length half of the step is decided by the MIR->SMT instance of C11: len+tail_len becomes min(len+tail_len+n, 2^32) from every state of the invariant, so the reported length depends only on the number of bytes fed, not on how they were split.',
        "Trusted: Kani's MIR->goto translation, CBMC 6.11 + CaDiCaL, the reference model in harness/refmodel.rs (independent table copies), the stubs listed per harness in the evidence (each a model of an unsupported intrinsic, a proved contract, or a caller-supplied trait impl). Bounds: pieces of at most 9 bytes per call (unbounded number of calls by induction, because the pre-state is arbitrary); `len` concrete in the structure lemmas (symbolic in the C11 boundary lemmas); the bucket/checksum effect of one call with a piece longer than 9 bytes is not decided (only its length arithmetic is, by the MIR->SMT instance, which trusts the nightly MIR dump, my translator and z3/cvc5).",
        'Kani/CBMC bounded model checking (SAT) of the compiled MIR with symbolic inputs; lemma decomposition; native replay of counterexamples',
        'DESIGN.md section 5, C03',
    ),
    'C04': (
        'For every value of every variant (all 2^(8*SIZE) byte patterns, symbolic): the text written by store_into_str_bytes has exactly the advertised length, the optional T1 prefix, and each character equals the uppercase digit the reference form prescribes (header nibble-swapped, body plain); parsing it back through from_str_bytes (explicit and auto-detected prefix), from_str, from_str_with and str::parse gives the same value; conversely every accepted string of either right length re-formats to T1 + its own uppercase digits. Run in every hex table configuration (encode full/half/min, decode full/half/quarter/min). Display is driven through core::fmt::write into a fixed sink and equals store_into_str_bytes.',
        "Trusted: Kani's MIR->goto translation, CBMC 6.11 + CaDiCaL, the reference model in harness/refmodel.rs (independent table copies), the stubs listed per harness in the evidence (each a model of an unsupported intrinsic, a proved contract, or a caller-supplied trait impl). Outside: the hex-simd crate used for body digits with the default `simd` feature (external code; not encoded); to_string's allocation path is covered only through Display equality; Display's checked from_utf8 arm is in the thorough tier only (the unchecked arm of feature `unsafe` is in quick).",
        'Kani/CBMC bounded model checking (SAT) of the compiled MIR with symbolic inputs; lemma decomposition; native replay of counterexamples',
        'DESIGN.md section 5, C04',
    ),
    'C05': (
        'For each variant and each candidate length, ALL byte strings of that length (symbolic, including non-UTF-8) and all three prefix modes: the result is Ok exactly when the reference well-formedness predicate holds, the value equals the reference decoding, a wrong length always yields InvalidStringLength, and any other error is one that applies to the input. No panic is reachable (Kani checks every index, slice and arithmetic operation). Run in all four decode-table configurations.',
        "Trusted: Kani's MIR->goto translation, CBMC 6.11 + CaDiCaL, the reference model in harness/refmodel.rs (independent table copies), the stubs listed per harness in the evidence (each a model of an unsupported intrinsic, a proved contract, or a caller-supplied trait impl). Bounds: the full specification (value, applicable error) is checked at concrete lengths per harness instance: the two accepted lengths of each variant and their neighbours; the length clause (InvalidStringLength iff the length is wrong for the mode, no panic) is checked for EVERY length 0..=L+4 at once with a symbolic slice length (Short in quick, Normal in thorough). hex-simd body decoding (default features) is outside.",
        'Kani/CBMC bounded model checking (SAT) of the compiled MIR with symbolic inputs; lemma decomposition; native replay of counterexamples',
        'DESIGN.md section 5, C05',
    ),
    'C06': (
        'For all byte arrays of each variant: TryFrom (array and slice) then store_into_bytes is the identity; every accessor (checksum bytes, length code, Q-ratio byte and nibbles, body bytes, quartile(i) for symbolic i) equals the corresponding field of the byte layout; equality of values is equality of bytes; clear_checksum zeroes exactly the checksum bytes; every slice length other than SIZE_IN_BYTES (symbolic length) is rejected with InvalidStringLength; quartile(i >= N) panics. The hex form relation is the reference text form checked in C04.',
        "Trusted: Kani's MIR->goto translation, CBMC 6.11 + CaDiCaL, the reference model in harness/refmodel.rs (independent table copies), the stubs listed per harness in the evidence (each a model of an unsupported intrinsic, a proved contract, or a caller-supplied trait impl). No bound beyond the fixed sizes.",
        'Kani/CBMC bounded model checking (SAT) of the compiled MIR with symbolic inputs; lemma decomposition; native replay of counterexamples',
        'DESIGN.md section 5, C06',
    ),
    'C07': (
        'Every optimisation-only arm is proved equal to the SAME configuration-independent reference, so any two configurations agree: Pearson (table-less / double table), Q-ratio distance (naive / 16x16 / 256x256), length distance (naive / table), hex decode (4 arms) and encode (3 arms), low-memory buckets, body distance (5 backends), bucket aggregation (naive, SSE2, SSSE3, AVX2 kernels + structure), the `unsafe` feature (same lemmas with invariant!() turned into checked assertions), and the run-time dispatch ladders of body distance and aggregation for EVERY outcome of the CPU-feature queries (queries and backends stubbed: the prescribed backend is called with the arguments of the caller and the cached choice is reused). The use of hex-simd by the default configuration is re-checked against the documented contract of that crate.',
        "Trusted: Kani's MIR->goto translation, CBMC 6.11 + CaDiCaL, the reference model in harness/refmodel.rs (independent table copies), the stubs listed per harness in the evidence (each a model of an unsupported intrinsic, a proved contract, or a caller-supplied trait impl). NOT decided by this technique: the `schedules' quantifier (which thread triggers CPU detection) - Kani does not model threads; the claim is reduced to `every function the OnceLock initialiser can store is equivalent' plus std's OnceLock contract. Static selection is decided for the default x86_64 target features (K6s); builds with extra -C target-feature flags are outside, as are the hex-simd kernels themselves (contract only) and non-x86 backends.",
        'Kani/CBMC bounded model checking (SAT) of the compiled MIR with symbolic inputs; lemma decomposition; native replay of counterexamples',
        'DESIGN.md section 5, C07',
    ),
    'C08': (
        'On the real compare_with_config for all pairs of Short, Normal and LongWithLongChecksum values (and Short/NormalL/Long for the relations) and both modes: d(a,a)=0, symmetry, d <= max_distance, max attained (cover witness produced by the solver), d_Default = 0 => equal bytes, d_Default = d_NoLength + length distance, clear_checksum lowers d by the checksum distance. For the remaining variants and the table configurations the same facts follow from the sum lemma (C02) and the part lemmas, each part distance being symmetric, bounded by its MAX_DISTANCE, zero iff equal, with max_distance equal to the sum of the part maxima (all checked).',
        "Trusted: Kani's MIR->goto translation, CBMC 6.11 + CaDiCaL, the reference model in harness/refmodel.rs (independent table copies), the stubs listed per harness in the evidence (each a model of an unsupported intrinsic, a proved contract, or a caller-supplied trait impl). The direct whole-value harnesses run in the table-less configuration K0 (the 64 KiB Q-ratio table makes them 30x slower); the table arms are tied in by cmp_qratios / cmp_length in K0, K1, K2.",
        'Kani/CBMC bounded model checking (SAT) of the compiled MIR with symbolic inputs; lemma decomposition; native replay of counterexamples',
        'DESIGN.md section 5, C08',
    ),
    'C09': (
        'Bounded model checking of the real length-code functions over ALL 2^32 lengths and all 256 codes at once (symbolic u32 / symbolic code index): totality, defining property of the code against an independent pinned copy of the 170-entry table, monotonicity, range() tiling and exactness, and the table-slice invariants handed to the optimiser under feature `unsafe`. The only loop (binary search) is fully unwound (unwinding assertion on), so within these functions the result is not bounded in input size.',
        "Trusted: Kani's MIR->goto translation, CBMC 6.11 + CaDiCaL, the reference model in harness/refmodel.rs (independent table copies), the stubs listed per harness in the evidence (each a model of an unsupported intrinsic, a proved contract, or a caller-supplied trait impl). `generated hash carries the code of the bytes fed' is discharged by the finalize lemma through the contract of new(): f_short_main (48-bucket instance of the generic finalize; every state incl. tail_len < 4, all option settings: the length part of the result is new(len + tail_len)) and len_processed run in this check; the other variants' instances of the same generic code run in the checks of C10/C11/C15.",
        'Kani/CBMC bounded model checking (SAT) of the compiled MIR with symbolic inputs; lemma decomposition; native replay of counterexamples',
        'DESIGN.md section 5, C09',
    ),
    'C10': (
        "finalize_with_options == reference gates for all states and all 32 option settings (lemma F of C01), DataLengthValidity::new/is_err/is_err_on == reference for all 2^32 lengths, 3 bucket sizes, 2 modes, published constants equal; monotonicity of the reference gates in the permissiveness order for all inputs; and directly on the real code: two finalize calls on the same arbitrary Short state with o <= o' give Ok(h) => Ok(h) (power-of-two third quartile); the MIR->SMT instance of C01 shows for ALL quartile triples that on every path of finalize (permissive flags free) the Q ratios are the reference function of the mode and of the quartiles handed to the body aggregation.",
        "Trusted: Kani's MIR->goto translation, CBMC 6.11 + CaDiCaL, the reference model in harness/refmodel.rs (independent table copies), the stubs listed per harness in the evidence (each a model of an unsupported intrinsic, a proved contract, or a caller-supplied trait impl). The direct two-call harness uses an arbitrary ordered quartile triple (same for both calls). MIR->SMT instance: trusts the nightly MIR dump, my translator (havoc outside its fragment), SMT-LIB FloatingPoint semantics, z3 and cvc5.",
        'Kani/CBMC bounded model checking (SAT) of the compiled MIR with symbolic inputs; lemma decomposition; plus symbolic execution of the nightly MIR dump into SMT-LIB2 decided by z3 and cvc5 for the loop-free Q-ratio slice; native replay of counterexamples',
        'DESIGN.md section 5, C10',
    ),
    'C11': (
        'processed_len == checked sum for all (len, tail_len); finalize returns TooLargeInput exactly when the fed total exceeds 4,224,281,216 or is unknown, and length code 169 at the maximum (lemma F with symbolic full-range len); update at the 2^32-4 saturation boundary: for every amount of room 0..5 and piece length up to 6 (concrete), exactly the bytes below the mark are consumed (call trace), len never wraps (overflow checks on), processed_len turns None exactly at 2^32. Full width (second back end): the MIR of update from entry to the store of the new len is executed symbolically into SMT-LIB2 and z3/cvc5 show, for EVERY state of the invariant (tail_len<=4, len<=2^32-4) and EVERY slice length below 2^63 (incl. >= 4 GiB), that no overflow or slice-index panic is reachable and len+tail_len becomes min(len+tail_len+n, 2^32): the inductive step of the reported length for any chunking.',
        "Trusted: Kani's MIR->goto translation, CBMC 6.11 + CaDiCaL, the reference model in harness/refmodel.rs (independent table copies), the stubs listed per harness in the evidence (each a model of an unsupported intrinsic, a proved contract, or a caller-supplied trait impl). In the Kani lemmas `len` is concrete: every amount of room 0..5 before the 2^32-4 mark and one interior point (a symbolic-len update harness needs 38.5 M SAT variables and does not fit in memory); real multi-GiB streams are not fed. The MIR->SMT instance trusts the nightly MIR dump, my translator (slice-index and copy_from_slice calls modelled by their length contracts; validated against the real code on 27 triples in the thorough tier), and z3 / cvc5; it stops at the store of len (the per-byte loop is the Kani lemmas' part).",
        'Kani/CBMC bounded model checking (SAT) of the compiled MIR with symbolic inputs; lemma decomposition; plus symbolic execution of the nightly MIR dump into SMT-LIB2 bit-vector terms decided by z3 and cvc5 for the loop-free length arithmetic of update; native replay of counterexamples',
        'DESIGN.md section 5, C11',
    ),
    'C12': (
        "The generic read loop hash_stream_common<R, G> is executed with a scripted symbolic reader (<= 4 steps over {deliver n with 1<=n<=1 MiB symbolic, Interrupted, 4 kinds of hard error, EOF}) and a recording generator with an arbitrary finalize result: the updates are exactly the delivered prefixes of the helper's buffer, in order; Interrupted is retried; one finalize with default options; first hard error returned as IOError of that kind and no hash.",
        "Trusted: Kani's MIR->goto translation, CBMC 6.11 + CaDiCaL, the reference model in harness/refmodel.rs (independent table copies), the stubs listed per harness in the evidence (each a model of an unsupported intrinsic, a proved contract, or a caller-supplied trait impl). Not decided: hash_file* (File::open + the same loop; real file I/O cannot be encoded) and streams of more than 4 reads (the loop body is the same for every iteration). The buffer contents are not inspected (slice identity is).",
        'Kani/CBMC bounded model checking (SAT) of the compiled MIR with symbolic inputs; lemma decomposition; native replay of counterexamples',
        'DESIGN.md section 5, C12',
    ),
    'C13': (
        'For all pairs of ASCII strings of the relevant lengths, compare_with::<Short> (and compare on Normal) equals `match (parse l, parse r)` built from the real parser and the real compare, including side and inner error. Case- and prefix-insensitivity follow from C05 (value == reference decoding).',
        "Trusted: Kani's MIR->goto translation, CBMC 6.11 + CaDiCaL, the reference model in harness/refmodel.rs (independent table copies), the stubs listed per harness in the evidence (each a model of an unsupported intrinsic, a proved contract, or a caller-supplied trait impl). Bounds: concrete length pairs (32,32) (30,32) (32,30) (31,32) (32,5) on Short, (72,5) on Normal in quick; more in thorough; strings restricted to ASCII (a &str must be UTF-8).",
        'Kani/CBMC bounded model checking (SAT) of the compiled MIR with symbolic inputs; lemma decomposition; native replay of counterexamples',
        'DESIGN.md section 5, C13',
    ),
    'C14': (
        'For all values, all three forms and ALL buffer lengths 0..=N+64 (symbolic length) with arbitrary prior content: shorter than the advertised size => BufferIsTooSmall and buffer untouched; otherwise Ok(size), the first size bytes equal the representation and every byte beyond is unchanged (symbolic index).',
        "Trusted: Kani's MIR->goto translation, CBMC 6.11 + CaDiCaL, the reference model in harness/refmodel.rs (independent table copies), the stubs listed per harness in the evidence (each a model of an unsupported intrinsic, a proved contract, or a caller-supplied trait impl). Short and Normal in quick, all five variants in thorough; hex-simd (default features) is outside.",
        'Kani/CBMC bounded model checking (SAT) of the compiled MIR with symbolic inputs; lemma decomposition; native replay of counterexamples',
        'DESIGN.md section 5, C14',
    ),
    'C15': (
        'With feature strict-parser: for all byte strings of the accepted lengths and all byte arrays, acceptance == lenient well-formedness AND length code < 170 AND (48-bucket => checksum <= 48), same value, and the attributed error when only one reason applies. Generated hashes: tlsh_b_mapping_48 <= 48 for all inputs, the Short checksum update keeps <= 48, finalize produces a valid length code (lemma F).',
        "Trusted: Kani's MIR->goto translation, CBMC 6.11 + CaDiCaL, the reference model in harness/refmodel.rs (independent table copies), the stubs listed per harness in the evidence (each a model of an unsupported intrinsic, a proved contract, or a caller-supplied trait impl). Bounds as C05/C06.",
        'Kani/CBMC bounded model checking (SAT) of the compiled MIR with symbolic inputs; lemma decomposition; native replay of counterexamples',
        'DESIGN.md section 5, C15',
    ),
    'C16': (
        'With feature serde (also +strict-parser, +serde-buffered): a mock Serializer with symbolic is_human_readable records exactly one serialize_str("T1..") / serialize_bytes(binary form); a mock Deserializer drives the visitors with 13 kinds of events (str, bytes, borrowed str/bytes, integers incl. u128, bool, unit, f64, none, char, empty seq) and symbolic payloads: Ok iff the matching parser accepts, same value, never a panic; the entry point used (str/string/bytes/byte_buf) is the documented one; de(ser(h)) == h.',
        "Trusted: Kani's MIR->goto translation, CBMC 6.11 + CaDiCaL, the reference model in harness/refmodel.rs (independent table copies), the stubs listed per harness in the evidence (each a model of an unsupported intrinsic, a proved contract, or a caller-supplied trait impl). Not decided: serde_json / ciborium / postcard themselves (whole-format parsers); their conformance to the serde data model is trusted. Payload lengths are concrete per instance.",
        'Kani/CBMC bounded model checking (SAT) of the compiled MIR with symbolic inputs; lemma decomposition; native replay of counterexamples',
        'DESIGN.md section 5, C16',
    ),
    'C17': (
        "Every harness of C01-C16 already fails on any reachable panic, arithmetic overflow, out-of-bounds index or invalid pointer dereference (Kani's built-in checks), including the unaligned SIMD loads. Additionally: the lemmas containing invariant!() are re-run with feature `unsafe`, where a violated invariant reaches unreachable_unchecked (reported by Kani); a reader that lies about the amount read must end in the slice-bounds panic and nothing else (kani::should_panic fails on any non-panic failure); the documented quartile() panic is confirmed; the serializers are run with a symbolic value and a symbolic buffer length 0..=N+64 (the C14 lemmas with symbolic length, which fail on any panic: a too-small or too-large caller buffer must give an error or a prefix write, never a panic); the stream helper is run against every 3-step script of a contract-respecting reader (c12_script), none of which may panic. The MIR->SMT instance of C11 adds: no overflow and no slice-index / copy_from_slice panic in the prefix of update for every state of the invariant and every slice length below 2^63.",
        "Trusted: Kani's MIR->goto translation, CBMC 6.11 + CaDiCaL, the reference model in harness/refmodel.rs (independent table copies), the stubs listed per harness in the evidence (each a model of an unsupported intrinsic, a proved contract, or a caller-supplied trait impl). Limits of the engine, stated: no uninitialised-memory check, no aliasing model, no data races, no sanitizer observation; call sequences are covered by per-call totality from arbitrary valid states.",
        'Kani/CBMC bounded model checking (SAT) of the compiled MIR with symbolic inputs; lemma decomposition; plus symbolic execution of the nightly MIR dump into SMT-LIB2 decided by z3 and cvc5 for the loop-free prefix of update; native replay of counterexamples',
        'DESIGN.md section 5, C17',
    ),
    'C18': (
        "Reachability query: with std::alloc::{alloc, alloc_zeroed, realloc} replaced by assert!(false), the sequences {new, update, processed_len, clone, finalize_with_options} and {from_str_bytes accept/reject, TryFrom, store_*, compare_with_config, clear_checksum, accessors} cannot reach the allocator for any input within the bound; a witness harness shows that the stubs do intercept Vec allocation. The `still compiles without std and alloc' clause is a build of the overlay with --no-default-features (a build fact, reported as such).",
        "Trusted: Kani's MIR->goto translation, CBMC 6.11 + CaDiCaL, the reference model in harness/refmodel.rs (independent table copies), the stubs listed per harness in the evidence (each a model of an unsupported intrinsic, a proved contract, or a caller-supplied trait impl). select_nth_unstable (core: cannot allocate) is stubbed in the generator harness; update pieces of 6+3 bytes.",
        'Kani/CBMC bounded model checking (SAT) of the compiled MIR with symbolic inputs; lemma decomposition; native replay of counterexamples',
        'DESIGN.md section 5, C18',
    ),
}

NOT_YET = "check not built yet in this round (see DESIGN.md section 5 for the plan)"


def main():
    reg = vf.load_registry()
    props = [json.loads(l)["id"] for l in open(os.path.join(VERIF, "properties.jsonl"))]
    checks = []
    na = []
    for p in props:
        hs = [h for h in reg if p in h.props]
        if p in CLAIMS and hs:
            text, note, tech, ref = CLAIMS[p]
            checks.append({
                "property_id": p,
                "quick_cmd": "python3 run/vf.py check %s --tier quick" % p,
                "thorough_cmd": "python3 run/vf.py check %s --tier thorough" % p,
                "evidence_file": "/verif/evidence/%s.json" % p,
                "replay_cmd_template": "python3 run/vf.py replay {path}",
                "engine": "kani-cbmc",
                "level_claimed": {"category": "model_checking", "text": text, "design_ref": ref},
                "level_note": note,
                "technique": tech,
            })
        else:
            na.append({"property_id": p, "reason": NA.get(p, NOT_YET)})
    man = {
        "version": 1,
        "setup_cmd": "python3 run/vf.py setup",
        "hooks": {
            "guard": "kani",
            "enable": "no source commits: every check copies /repo/fast-tlsh's working tree to a "
                      "scratch overlay, appends `#[cfg(kani)] mod ...;` lines and runs `cargo kani` "
                      "(which sets --cfg kani) on the copy",
            "baseline_off_cmd": "cd /repo && cargo test --workspace --no-fail-fast --offline",
            "source_commits": [],
            "add_only": True,
        },
        "engines": [{
            "name": "kani-cbmc",
            "path": "/verif/run/vf.py",
            "serves_properties": [c["property_id"] for c in checks],
            "kind_free_text": "Kani 0.68 (MIR -> goto) + CBMC 6.11 + CaDiCaL bounded model checking "
                              "of the real crate code with symbolic inputs; native replay of every "
                              "counterexample through `cargo kani playback`",
        }],
        "checks": checks,
        "not_applicable": na,
        "notes": "Exit 2 of a check means `not decided' (build error, time-out, OOM, unwinding "
                 "bound too small, vacuous harness, non-reproducing counterexample); it is never "
                 "reported as success.",
    }
    json.dump(man, open(os.path.join(VERIF, "MANIFEST.json"), "w"), indent=1)
    print("MANIFEST.json: %d checks, %d not_applicable" % (len(checks), len(na)))


NA = {}

if __name__ == "__main__":
    main()

#!/bin/bash
# Runs every registered quick check against /repo's current tree, sequentially, and prints a
# one-line summary per property (exit status, wall seconds).  Evidence files are rewritten.
cd "$(dirname "$0")/.."
TIER="${1:-quick}"
for p in C01 C02 C03 C04 C05 C06 C07 C08 C09 C10 C11 C12 C13 C14 C15 C16 C17 C18; do
  s=$(date +%s)
  python3 run/vf.py check $p --tier $TIER > .build/last_$p.log 2>&1
  rc=$?
  echo "$p exit=$rc wall=$(( $(date +%s) - s ))s $(grep -c '\] ok ' .build/last_$p.log) ok $(grep -c 'NOT DECIDED' .build/last_$p.log) undecided"
done

#!/usr/bin/env python3
"""Runner for the solver-based checks of a4lg/fast-tlsh.

  python3 run/vf.py check <PROPERTY> [--tier quick|thorough] [--only REGEX]
  python3 run/vf.py replay <replay.json>
  python3 run/vf.py list [<PROPERTY>]
  python3 run/vf.py setup

Exit status of `check`:
  0  every harness of the property was decided by the solver and held
     (or failed only in ways listed in known_findings.json)
  1  a violation was found by the solver AND reproduced natively
     (a line `VIOLATION property=<id> replay=<path>` is printed)
  2  not decided: build error, time-out, out of memory, unwinding bound too
     small, vacuous harness, or a counterexample that does not reproduce
     natively (encoding/stub wrong).  Never reported as success.
"""
import argparse
import concurrent.futures as cf
import hashlib
import json
import os
import re
import resource
import shutil
import signal
import subprocess
import sys
import time

VERIF = os.path.dirname(os.path.dirname(os.path.abspath(__file__)))
REPO = os.environ.get("VERIF_REPO", "/repo")
CRATE = "fast-tlsh"
BUILD = os.path.join(VERIF, ".build")
SCRATCH_ROOT = os.environ.get("VERIF_SCRATCH", "/var/tmp/fast-tlsh-verif")
HARNESS_DIR = os.path.join(VERIF, "harness")
EVIDENCE_DIR = os.environ.get("VERIF_EVIDENCE_DIR", os.path.join(VERIF, "evidence"))
REPLAY_DIR = os.path.join(EVIDENCE_DIR, "replay")
KNOWN = os.path.join(VERIF, "known_findings.json")
NCPU = int(os.environ.get("VERIF_JOBS", str(os.cpu_count() or 8)))

BASE_FEATURES = ["std", "easy-functions", "simd-per-arch"]
CONFIGS = {
    # every config adds BASE_FEATURES; simd-per-arch alone selects no code (checked on each run)
    "K0": [],
    "K1": ["opt-default"],
    "K2": ["opt-embedded-default"],
    "K3": ["opt-low-memory-buckets", "opt-low-memory-hex-str-decode-quarter-table",
           "opt-low-memory-hex-str-encode-min-table"],
    "K4": ["opt-low-memory-hex-str-decode-half-table"],
    "K5": ["opt-low-memory-hex-str-decode-min-table"],
    "K6": ["simd", "detect-features", "opt-default"],
    # static (compile-time) backend selection: no run-time detection; on x86_64 without extra
    # -C target-feature flags this selects the SSE2 backends
    "K6s": ["simd", "opt-default"],
    "K7": ["opt-default", "strict-parser"],
    "K8": ["opt-default", "serde"],
    "K8s": ["opt-default", "serde", "strict-parser"],
    "K8b": ["opt-default", "serde", "serde-buffered"],
    "K9": ["simd", "detect-features", "opt-default", "unsafe"],
    "K10": ["opt-default", "unsafe"],
}

# harness file -> (source file that gets the `mod` line, module name, module path, #[path] value)
# files not listed here are part of `crate::verif` (declared in harness/mod.rs).
INJECT = {
    "gen.rs": ("src/generate.rs", "verif_gen", "generate::verif_gen", "verif/gen.rs"),
    "stream.rs": ("src/generate_easy_std.rs", "verif_stream", "generate_easy_std::verif_stream",
                  "verif/stream.rs"),
    "k_p32.rs": ("src/compare/dist_body/pseudo_simd_32.rs", "verif_k",
                 "compare::dist_body::pseudo_simd_32::verif_k", "../../verif/k_p32.rs"),
    "k_p64.rs": ("src/compare/dist_body/pseudo_simd_64.rs", "verif_k",
                 "compare::dist_body::pseudo_simd_64::verif_k", "../../verif/k_p64.rs"),
    "k_sse2.rs": ("src/compare/dist_body/x86_sse2.rs", "verif_k",
                  "compare::dist_body::x86_sse2::verif_k", "../../verif/k_sse2.rs"),
    "k_sse41.rs": ("src/compare/dist_body/x86_sse4_1.rs", "verif_k",
                   "compare::dist_body::x86_sse4_1::verif_k", "../../verif/k_sse41.rs"),
    "k_avx2.rs": ("src/compare/dist_body/x86_avx2.rs", "verif_k",
                  "compare::dist_body::x86_avx2::verif_k", "../../verif/k_avx2.rs"),
    "body.rs": ("src/compare/dist_body.rs", "verif_body", "compare::dist_body::verif_body",
                "../verif/body.rs"),
    "a_naive.rs": ("src/generate/bucket_aggregation.rs", "verif_a",
                   "generate::bucket_aggregation::verif_a", "../verif/a_naive.rs"),
    "a_sse2.rs": ("src/generate/bucket_aggregation/x86_sse2.rs", "verif_a",
                  "generate::bucket_aggregation::x86_sse2::verif_a", "../../verif/a_sse2.rs"),
    "a_ssse3.rs": ("src/generate/bucket_aggregation/x86_ssse3.rs", "verif_a",
                   "generate::bucket_aggregation::x86_ssse3::verif_a", "../../verif/a_ssse3.rs"),
    "a_avx2.rs": ("src/generate/bucket_aggregation/x86_avx2.rs", "verif_a",
                  "generate::bucket_aggregation::x86_avx2::verif_a", "../../verif/a_avx2.rs"),
    "hexs.rs": ("src/parse/hex_str.rs", "verif_hex", "parse::hex_str::verif_hex",
                "../verif/hexs.rs"),
    "pears.rs": ("src/pearson.rs", "verif_p", "pearson::verif_p", "verif/pears.rs"),
    "lens.rs": ("src/length.rs", "verif_l", "length::verif_l", "verif/lens.rs"),
    "hashi.rs": ("src/hash.rs", "verif_h", "hash::verif_h", "verif/hashi.rs"),
}

# properties that also get the MIR -> SMT instance (run/mirq.py): C01 (Q ratios == reference at full
# width) and C10 (the Q ratios are that function of the quartiles and the mode on EVERY path, i.e.
# whatever the permissive flags are, which the Kani lemma c10_direct_* shows on power-of-two q3 only)
MIR_SMT_PROPS = ("C01", "C03", "C10", "C11", "C17")
# C11: the length arithmetic of `update` (entry .. store of the new `len`) for ALL states and ALL
# slice lengths incl. >= 4 GiB: one inductive step of len + tail_len == min(bytes fed, 2^32)
# C17: the same instance as C11, for its panic-freedom half (no overflow, no slice-index or
# copy_from_slice length panic in the prefix of update for any state and any slice length)
# C03: the same instance again: "same reported length for every way of splitting" needs the step
# len' + tail_len' == min(len + tail_len + n, 2^32) for pieces of ANY length, and the Kani chunk
# lemmas have pieces <= 9 bytes (seed C03-3: `data.len() as u32` instead of the saturating conversion)
MIR_SMT_KIND = {"C01": "qratio", "C03": "len", "C10": "qratio", "C11": "len", "C17": "len"}

SIMD_OVERFLOW_RE = re.compile(r"attempt to compute `?simd_(add|sub|mul)`? which would overflow")


def log(*a):
    print(*a, flush=True)


# ---------------------------------------------------------------- registry

class Harness:
    def __init__(self, d):
        self.name = d["h"]
        self.props = d["props"].split(",")
        self.cfgs = d["cfgs"].split(",")
        self.tier = {"q": "quick", "t": "thorough"}[d.get("tier", "q")]
        self.timeout = int(d.get("t", "600"))
        self.file = d["file"]
        self.funcs = d.get("funcs", "")
        self.bound = d.get("bound", "")
        self.assume = d.get("assume", "")
        self.stubs = d.get("stubs", "")
        self.note = d.get("note", "")
        self.native = d.get("native", "")  # optional hand-written native confirmation test
        if self.file in INJECT:
            self.modpath = INJECT[self.file][2]
        else:
            self.modpath = "verif::" + self.file[:-3]
        if d.get("submod"):
            self.modpath += "::" + d["submod"]

    @property
    def full(self):
        return self.modpath + "::" + self.name


def load_registry():
    out = []
    for fn in sorted(os.listdir(HARNESS_DIR)):
        if not fn.endswith(".rs"):
            continue
        for ln in open(os.path.join(HARNESS_DIR, fn), encoding="utf-8"):
            ln = ln.strip()
            if not ln.startswith("//@ "):
                continue
            body = ln[4:]
            parts = [p.strip() for p in body.split("|")]
            d = {"file": fn}
            for tok in parts[0].split():
                k, _, v = tok.partition("=")
                d[k] = v
            for p in parts[1:]:
                k, _, v = p.partition(":")
                d[k.strip()] = v.strip()
            out.append(Harness(d))
    names = [h.name for h in out]
    dup = {n for n in names if names.count(n) > 1}
    if dup:
        raise SystemExit("duplicate harness names in registry: %s" % sorted(dup))
    return out


# ---------------------------------------------------------------- overlay

TGT_SUFFIX = [""]


def tgt_dir(name):
    """Build output of configuration `name`.  cargo names the artifacts of a workspace member after
    its workspace-relative path, which is the same in every overlay, so two runs over DIFFERENT
    source trees must never share a target directory (measured: a concurrent run on a seeded tree
    made an unrelated harness fail).  Runs on another tree (VERIF_REPO / VERIF_TAG) and runs that
    found their overlay name taken by a live run get their own, removed when they end."""
    return os.path.join(BUILD, "tgt-" + name + TGT_SUFFIX[0])


def make_overlay(tag):
    """Copy /repo's current working tree (crate sources only) and add the harness modules."""
    # a stable path per (property, tier) keeps cargo's fingerprint stable, so that repeated runs
    # overwrite their build output instead of accumulating it; a live concurrent run of the same
    # check gets a pid-suffixed directory instead.
    root = os.path.join(SCRATCH_ROOT, tag)
    pidfile = root + ".pid"
    try:
        other = int(open(pidfile).read().strip())
        os.kill(other, 0)
        root = os.path.join(SCRATCH_ROOT, "%s-%d" % (tag, os.getpid()))
        pidfile = root + ".pid"
        TGT_SUFFIX[0] = "-tmp%d" % os.getpid()
    except (OSError, ValueError):
        pass
    if not TGT_SUFFIX[0] and (os.environ.get("VERIF_TAG") or os.path.abspath(REPO) != "/repo"):
        TGT_SUFFIX[0] = "-tmp%d" % os.getpid()
    os.makedirs(SCRATCH_ROOT, exist_ok=True)
    with open(pidfile, "w") as f:
        f.write(str(os.getpid()))
    if os.path.exists(root):
        shutil.rmtree(root)
    ws = os.path.join(root, "ws")
    os.makedirs(ws)
    src_crate = os.path.join(REPO, CRATE)
    dst_crate = os.path.join(ws, CRATE)
    shutil.copytree(src_crate, dst_crate,
                    ignore=shutil.ignore_patterns("target", "serde-tests", ".git"))
    shutil.copy(os.path.join(REPO, "Cargo.lock"), os.path.join(ws, "Cargo.lock"))
    with open(os.path.join(ws, "Cargo.toml"), "w") as f:
        f.write('[workspace]\nmembers = ["%s"]\nresolver = "2"\n' % CRATE)
    os.makedirs(os.path.join(ws, ".cargo"))
    with open(os.path.join(ws, ".cargo", "config.toml"), "w") as f:
        f.write("[net]\noffline = true\n")
    vdir = os.path.join(dst_crate, "src", "verif")
    os.makedirs(vdir)
    for fn in os.listdir(HARNESS_DIR):
        if fn.endswith(".rs"):
            shutil.copy(os.path.join(HARNESS_DIR, fn), os.path.join(vdir, fn))
    with open(os.path.join(dst_crate, "src", "lib.rs"), "a") as f:
        f.write("\n#[cfg(kani)]\nmod verif;\n")
    for fn, (target, modname, _mp, relpath) in INJECT.items():
        if not os.path.exists(os.path.join(HARNESS_DIR, fn)):
            continue
        tpath = os.path.join(dst_crate, target)
        if not os.path.exists(tpath):
            raise SystemExit("overlay: %s missing in /repo (needed by harness/%s)" % (target, fn))
        with open(tpath, "a") as f:
            f.write('\n#[cfg(kani)]\n#[path = "%s"]\nmod %s;\n' % (relpath, modname))
    check_simd_per_arch_neutral(dst_crate)
    return root, dst_crate


def remove_tmp_targets():
    if TGT_SUFFIX[0]:
        for d in os.listdir(BUILD):
            if d.startswith("tgt-") and (d.endswith(TGT_SUFFIX[0]) or d.endswith(TGT_SUFFIX[0] + ".lock")):
                pth = os.path.join(BUILD, d)
                if os.path.isdir(pth):
                    shutil.rmtree(pth, ignore_errors=True)
                else:
                    os.remove(pth)


def check_simd_per_arch_neutral(crate):
    """`simd-per-arch` must never select code on its own (it is always conjoined with an
    opt-simd-* feature, except for the crate-level lint attributes in lib.rs)."""
    bad = []
    for dp, _dn, fns in os.walk(os.path.join(crate, "src")):
        if os.sep + "verif" in dp:
            continue
        for fn in fns:
            if not fn.endswith(".rs"):
                continue
            txt = open(os.path.join(dp, fn), encoding="utf-8").read()
            for m in re.finditer(r'feature\s*=\s*"simd-per-arch"', txt):
                ctx = txt[m.start():m.start() + 400]
                if fn == "lib.rs" and "unsafe" in txt[max(0, m.start() - 200):m.start() + 200]:
                    continue
                if not re.search(r'feature\s*=\s*"opt-simd-', ctx[:200]):
                    bad.append("%s@%d" % (os.path.join(dp, fn), m.start()))
    if bad:
        raise SystemExit("overlay: simd-per-arch used without an opt-simd-* feature at %s; "
                         "the harness builds would select different code" % bad)


def features_of(cfg):
    return ",".join(BASE_FEATURES + CONFIGS[cfg])


def limit_as():
    gb = int(os.environ.get("VERIF_MEM_GB", "24"))
    resource.setrlimit(resource.RLIMIT_AS, (gb << 30, gb << 30))
    os.setsid()


def limit_as_big():
    # playback generation: kani-driver parses the whole CBMC trace in memory (one run at a time)
    gb = int(os.environ.get("VERIF_MEM_GB_PLAYBACK", "52"))
    resource.setrlimit(resource.RLIMIT_AS, (gb << 30, gb << 30))
    os.setsid()


def run_cmd(cmd, cwd, timeout, logfile, limit=True):
    t0 = time.time()
    pre = limit_as_big if limit == "big" else (limit_as if limit else os.setsid)
    with open(logfile, "w") as lf:
        p = subprocess.Popen(cmd, cwd=cwd, stdout=lf, stderr=subprocess.STDOUT,
                             preexec_fn=pre,
                             env=dict(os.environ, CARGO_NET_OFFLINE="true", CARGO_TERM_COLOR="never"))
        try:
            rc = p.wait(timeout=timeout)
            timed_out = False
        except subprocess.TimeoutExpired:
            timed_out = True
            try:
                os.killpg(p.pid, signal.SIGKILL)
            except ProcessLookupError:
                pass
            p.wait()
            rc = -9
    return rc, timed_out, time.time() - t0


# ---------------------------------------------------------------- kani output

class HResult:
    def __init__(self, full):
        self.full = full
        self.status = "NOT_RUN"   # SUCCESSFUL / FAILED / TIMEOUT / ERROR / NOT_RUN
        self.checks = 0
        self.failed = 0
        self.covers_sat = 0
        self.covers_total = 0
        self.failed_checks = []   # (description, location)
        self.time = 0.0
        self.stubs = []
        self.raw = ""


def parse_kani_output(text, fulls):
    res = {f: HResult(f) for f in fulls}
    thread = {}
    lines = text.splitlines()
    i = 0
    cur = None

    def finish(block, r):
        r.raw = "\n".join(block)
        m = re.search(r"\*\* (\d+) of (\d+) failed", r.raw)
        if m:
            r.failed, r.checks = int(m.group(1)), int(m.group(2))
        m = re.search(r"\*\* (\d+) of (\d+) cover properties satisfied", r.raw)
        if m:
            r.covers_sat, r.covers_total = int(m.group(1)), int(m.group(2))
        m = re.search(r"Verification Time: ([0-9.]+)s", r.raw)
        if m:
            r.time = float(m.group(1))
        for fm in re.finditer(r"Failed Checks: (.*)\n\s*File: (.*)", r.raw):
            r.failed_checks.append((fm.group(1).strip(), fm.group(2).strip()))
        if "VERIFICATION:- SUCCESSFUL" in r.raw:
            r.status = "SUCCESSFUL"
        elif "VERIFICATION:- FAILED" in r.raw:
            r.status = "FAILED"
        if re.search(r"timed out|CBMC timed out|Timeout", r.raw) and r.status != "SUCCESSFUL":
            r.status = "TIMEOUT"
        if re.search(r"Status: ERROR|out of memory|bad_alloc|CBMC crashed|CBMC failed|std::bad_alloc", r.raw):
            r.status = "ERROR"

    block = None
    blk_r = None
    for ln in lines:
        m = re.match(r"^(?:Thread (\d+): )?Checking harness (\S+?)\.\.\.$", ln)
        if m:
            if block is not None and blk_r is not None:
                finish(block, blk_r)
                block, blk_r = None, None
            t, full = m.group(1) or "-", m.group(2)
            thread[t] = full
            if full in res:
                res[full].status = "STARTED"
            if m.group(1) is None:
                block, blk_r = [], res.get(full)
            continue
        m = re.match(r"^Thread (\d+):\s+- Stub: (.*)$", ln)
        if m:
            f = thread.get(m.group(1))
            if f in res:
                res[f].stubs.append(m.group(2))
            continue
        m = re.match(r"^\s+- Stub: (.*)$", ln)
        if m and blk_r is not None:
            blk_r.stubs.append(m.group(1))
            continue
        m = re.match(r"^Thread (\d+): ?$", ln)
        if m:
            if block is not None and blk_r is not None:
                finish(block, blk_r)
            block, blk_r = [], res.get(thread.get(m.group(1)))
            continue
        if ln.startswith("Manual Harness Summary") or ln.startswith("Complete - "):
            if block is not None and blk_r is not None:
                finish(block, blk_r)
            block, blk_r = None, None
            continue
        if block is not None:
            block.append(ln)
    if block is not None and blk_r is not None:
        finish(block, blk_r)
    return res


# ---------------------------------------------------------------- running

def run_config(crate_dir, cfg, harnesses, tier, logdir, jobs, extra=None):
    tgt = tgt_dir(cfg)
    os.makedirs(tgt, exist_ok=True)
    hto = max(h.timeout for h in harnesses)
    cmd = ["cargo", "kani", "--target-dir", tgt, "--no-default-features",
           "--features", features_of(cfg), "-Z", "stubbing", "-Z", "unstable-options",
           "--harness-timeout", "%ds" % hto, "-j", str(max(2, jobs)),
           "--output-format", "terse", "--exact", "--no-assertion-reach-checks"]
    for h in harnesses:
        cmd += ["--harness", h.full]
    if extra:
        cmd += extra
    logfile = os.path.join(logdir, "kani-%s.log" % cfg)
    waves = (len(harnesses) + max(2, jobs) - 1) // max(2, jobs)
    # one run at a time per target directory: a second run (of another property, same tree)
    # would rebuild the same artifact names while CBMC of the first still reads them
    import fcntl
    with open(tgt + ".lock", "w") as lk:
        fcntl.flock(lk, fcntl.LOCK_EX)
        rc, to, wall = run_cmd(cmd, crate_dir, 240 + hto * waves + 60, logfile)
    text = open(logfile, errors="replace").read()
    res = parse_kani_output(text, [h.full for h in harnesses])
    build_failed = ("could not compile" in text) or ("error: Failed to execute cargo" in text) \
        or ("error[E" in text)
    for h in harnesses:
        r = res[h.full]
        if build_failed:
            r.status = "BUILD_ERROR"
        elif r.status in ("NOT_RUN", "STARTED"):
            r.status = "TIMEOUT" if (to or r.status == "STARTED") else "NOT_RUN"
    return cfg, res, text, wall, build_failed


def is_filtered_failure(desc, loc):
    return bool(SIMD_OVERFLOW_RE.search(desc)) and ("core_arch" in loc or "stdarch" in loc)


def classify(r):
    """-> ('pass'|'fail'|'undecided', reason, genuine_failed_checks)"""
    if r.status == "SUCCESSFUL":
        if r.covers_total and r.covers_sat != r.covers_total:
            return "undecided", "vacuity: %d of %d cover witnesses satisfied" % (
                r.covers_sat, r.covers_total), []
        return "pass", "", []
    if r.status == "FAILED":
        genuine = [(d, l) for (d, l) in r.failed_checks if not is_filtered_failure(d, l)]
        if not r.failed_checks:
            return "undecided", "FAILED without failed-check details", []
        if any("unwinding assertion" in d for d, _ in genuine):
            return "undecided", "unwinding bound too small: " + "; ".join(
                d for d, _ in genuine if "unwinding" in d), []
        if any("not currently supported by Kani" in d or "unsupported" in d.lower()
               for d, _ in genuine):
            return "undecided", "unsupported construct reached: " + "; ".join(
                d for d, _ in genuine), []
        if not genuine:
            if r.covers_total and r.covers_sat != r.covers_total:
                return "undecided", "vacuity (after filter)", []
            return "pass", "only wrapping-SIMD overflow reports (filtered)", []
        return "fail", "", genuine
    return "undecided", r.status, []


# ---------------------------------------------------------------- replay

def extract_playback_tests(text, hname):
    tests = []
    for m in re.finditer(r"```\n(.*?)```", text, re.S):
        code = m.group(1)
        if ("fn kani_concrete_playback_%s_" % hname) in code:
            kind = re.search(r"/// Check for `(\w+)`: \"(.*)", code)
            # keep only the test item itself: the doc comment may be line-wrapped by Kani in a
            # way that does not compile (a description containing a line break)
            body = code[code.index("#[test]"):] if "#[test]" in code else code
            tests.append((kind.group(1) if kind else "?",
                          kind.group(2).rstrip('"') if kind else "", body))
    return tests


def native_replay(crate_dir, cfg, h, logdir):
    """Ask Kani for concrete values of the failing check, then run the same harness body
    natively (real code, no stubs) with those values.  Returns (reproduced, info)."""
    tgt = tgt_dir(cfg)
    cmd = ["cargo", "kani", "--target-dir", tgt, "--no-default-features",
           "--features", features_of(cfg), "-Z", "stubbing", "-Z", "unstable-options",
           "-Z", "concrete-playback", "--concrete-playback=print",
           "--harness-timeout", "%ds" % (h.timeout * 2), "--output-format", "terse",
           "--exact", "--harness", h.full]
    logfile = os.path.join(logdir, "playback-gen-%s-%s.log" % (cfg, h.name))
    if h.native:
        tests = []   # trace too large for Kani's playback generator: go straight to the native test
    else:
        run_cmd(cmd, crate_dir, h.timeout * 2 + 300, logfile, limit="big")
        text = open(logfile, errors="replace").read()
        tests = [t for t in extract_playback_tests(text, h.name) if t[0] != "cover"]
    if not tests:
        if h.native:
            # hand-written native confirmation (same checking function, concrete inputs)
            cmd = ["cargo", "kani", "playback", "-Z", "concrete-playback", "--lib",
                   "--no-default-features", "--features", features_of(cfg),
                   "--", h.native, "--test-threads", "1"]
            logfile2 = os.path.join(logdir, "native-run-%s-%s.log" % (cfg, h.name))
            rc, to, _ = run_cmd(cmd, crate_dir, 1200, logfile2, limit=False)
            out = open(logfile2, errors="replace").read()
            failed = re.findall(r"^test (\S+) \.\.\. FAILED", out, re.M)
            panics = re.findall(r"panicked at ([^\n]*)\n([^\n]*)", out)
            return bool(failed), {"tests": [], "native_test": h.native,
                                  "native": [{"rc": rc, "failed": failed,
                                              "panics": [" ".join(p) for p in panics][:6]}],
                                  "note": "kani produced no concrete playback test; "
                                          "hand-written native confirmation used"}
        return False, {"error": "kani produced no concrete playback test", "log": logfile}
    hfile = os.path.join(crate_dir, "src", "verif", h.file)
    with open(hfile, "a") as f:
        f.write("\n#[cfg(test)]\nmod verif_playback_%s_%s {\n    use super::*;\n" % (h.name, cfg))
        for _k, _d, code in tests:
            f.write(code + "\n")
        f.write("}\n")
    outcomes = []
    reproduced = False
    for prof in ([], ):
        cmd = ["cargo", "kani", "playback", "-Z", "concrete-playback", "--lib",
               "--no-default-features", "--features", features_of(cfg)] + prof + \
              ["--", "kani_concrete_playback_%s_" % h.name, "--test-threads", "1"]
        logfile2 = os.path.join(logdir, "playback-run-%s-%s.log" % (cfg, h.name))
        rc, to, _ = run_cmd(cmd, crate_dir, 1200, logfile2, limit=False)
        out = open(logfile2, errors="replace").read()
        failed = re.findall(r"^test (\S+) \.\.\. FAILED", out, re.M)
        passed = re.findall(r"^test (\S+) \.\.\. ok", out, re.M)
        panics = re.findall(r"panicked at ([^\n]*)\n([^\n]*)", out)
        # A panic raised by Kani's playback machinery itself (left-over / missing concrete values
        # because a stub that draws values is inactive natively, or a `kani::assume` that does not
        # hold for the shifted values) is NOT a reproduction; only a panic in the harness or in
        # the crate under test is.
        genuine_panics = [p for p in panics
                          if not re.search(r"library/kani|kani_core|kani/src/", p[0])]
        outcomes.append({"rc": rc, "failed": failed, "passed": passed,
                         "panics": [" ".join(p) for p in panics][:6],
                         "genuine_panics": len(genuine_panics)})
        if failed and genuine_panics:
            reproduced = True
    info = {"tests": [{"kind": k, "check": d, "code": c} for k, d, c in tests],
            "native": outcomes}
    return reproduced, info


# ---------------------------------------------------------------- known findings

def load_known():
    if not os.path.exists(KNOWN):
        return {"findings": [], "fixed": []}
    return json.load(open(KNOWN))


def match_known(known, prop, h, genuine):
    """A failing harness is a known finding iff every genuinely failing check matches one
    listed finding for this property + harness role."""
    hits = []
    for d, l in genuine:
        ok = None
        for f in known.get("findings", []):
            if f["property"] != prop:
                continue
            if not re.search(f["harness"], h.name):
                continue
            if re.search(f["check"], d + " @ " + l):
                ok = f
                break
        if ok is None:
            return None
        hits.append(ok)
    return hits


# ---------------------------------------------------------------- check

def cmd_check(args):
    prop = args.property
    tier = args.tier or os.environ.get("VERIF_TIER") or "quick"
    seed = int(os.environ.get("VERIF_SEED", "0") or 0)
    t0 = time.time()
    reg = load_registry()
    sel = [h for h in reg if prop in h.props and (tier == "thorough" or h.tier == "quick")]
    if args.only:
        sel = [h for h in sel if re.search(args.only, h.name)]
    if not sel and not (prop in MIR_SMT_PROPS and args.only and re.search(args.only, "mir_smt")):
        log("no harness registered for %s (tier %s)" % (prop, tier))
        return 2
    os.makedirs(EVIDENCE_DIR, exist_ok=True)
    ev_path = os.path.join(EVIDENCE_DIR, "%s.json" % prop)
    if os.path.exists(ev_path) and not args.only:
        os.remove(ev_path)
    root, crate_dir = make_overlay("%s-%s%s" % (prop, tier, os.environ.get("VERIF_TAG", "")))
    # the log directory follows the overlay name, which is pid-suffixed when the same check is
    # already running, so that two concurrent runs never share (and delete) each other's logs
    logdir = os.path.join(BUILD, "logs", os.path.basename(root))
    shutil.rmtree(logdir, ignore_errors=True)
    os.makedirs(logdir)
    known = load_known()
    exit_code = 0
    try:
        bycfg = {}
        for h in sel:
            for c in h.cfgs:
                bycfg.setdefault(c, []).append(h)
        # schedule: configs in parallel, jobs split by share of harnesses
        total = sum(len(v) for v in bycfg.values())
        plan = {}
        for c, hs in bycfg.items():
            plan[c] = max(2, min(len(hs), (NCPU * len(hs) + total - 1) // total))
        log("[vf] %s tier=%s: %d harness instances in %d configs (%s), %d cpus" % (
            prop, tier, total, len(bycfg), " ".join("%s:%d" % (c, len(v)) for c, v in
                                                     sorted(bycfg.items())), NCPU))
        results = []   # (cfg, Harness, HResult)
        build_errors = []
        extra_builds = run_extra_builds(prop, tier, crate_dir, logdir)
        with cf.ThreadPoolExecutor(max_workers=max(1, len(bycfg))) as ex:
            futs = [ex.submit(run_config, crate_dir, c, hs, tier, logdir, plan[c])
                    for c, hs in sorted(bycfg.items())]
            for fu in futs:
                cfg, res, text, wall, bfail = fu.result()
                if bfail:
                    errs = re.findall(r"^error(?:\[E\d+\])?: .*$", text, re.M)[:8]
                    build_errors.append((cfg, errs))
                for h in bycfg[cfg]:
                    results.append((cfg, h, res[h.full]))
                log("[vf] config %s done in %.0fs" % (cfg, wall))
        violations = []
        undecided = []
        unreplayed = []
        replays_done = 0
        known_hits = []
        samples = []
        n_checks = 0
        solver_time = 0.0
        nontrivial = set()
        # failing harnesses are replayed cheapest first (the playback generator re-runs CBMC)
        results.sort(key=lambda t: (0 if classify(t[2])[0] != "fail" else 1, t[2].time))
        for cfg, h, r in results:
            verdict, why, genuine = classify(r)
            n_checks += r.checks
            solver_time += r.time
            if verdict == "pass" and r.checks - r.failed > 0:
                nontrivial.add((h.name, cfg))
            entry = {"harness": h.full, "config": cfg, "features": features_of(cfg),
                     "verdict": verdict, "kani_status": r.status, "checks": r.checks,
                     "failed_checks": r.failed, "covers": "%d/%d" % (r.covers_sat, r.covers_total),
                     "solver_s": round(r.time, 2), "functions": h.funcs, "bound": h.bound,
                     "assumptions": h.assume, "stubs": h.stubs, "stubs_applied": r.stubs}
            if why:
                entry["reason"] = why
            samples.append(entry)
            tag = {"pass": "ok  ", "fail": "FAIL", "undecided": "??  "}[verdict]
            log("[vf] %s %-4s %-44s %6.1fs checks=%d covers=%d/%d %s" % (
                tag, cfg, h.name, r.time, r.checks, r.covers_sat, r.covers_total, why))
            if verdict == "undecided":
                undecided.append((cfg, h, why))
            elif verdict == "fail":
                hits = match_known(known, prop, h, genuine)
                if hits is not None:
                    for f in hits:
                        known_hits.append((f, cfg, h))
                    entry["verdict"] = "known-finding"
                    continue
                log("[vf] counterexample for %s in %s: %s" % (h.name, cfg, genuine[:3]))
                if violations and len(violations) >= 1 and replays_done >= 1:
                    entry["reason"] = "failed; not replayed (another violation already reproduced)"
                    unreplayed.append((cfg, h))
                    continue
                if replays_done >= 6:
                    entry["verdict"] = "undecided"
                    entry["reason"] = "failed; replay budget exhausted"
                    undecided.append((cfg, h, "failed, replay budget exhausted"))
                    continue
                replays_done += 1
                reproduced, info = native_replay(crate_dir, cfg, h, logdir)
                info.update({"property": prop, "harness": h.full, "config": cfg,
                             "features": features_of(cfg), "failed_checks": genuine,
                             "reproduced_natively": reproduced,
                             "how_to_replay": "python3 run/vf.py replay <this file>"})
                os.makedirs(REPLAY_DIR, exist_ok=True)
                hsh = hashlib.sha1(json.dumps(info, sort_keys=True).encode()).hexdigest()[:10]
                rp = os.path.join(REPLAY_DIR, "%s-%s-%s-%s.json" % (prop, h.name, cfg, hsh))
                json.dump(info, open(rp, "w"), indent=1)
                entry["replay"] = rp
                if reproduced:
                    violations.append((cfg, h, rp, genuine))
                else:
                    entry["verdict"] = "undecided"
                    entry["reason"] = "counterexample did not reproduce natively"
                    undecided.append((cfg, h, "counterexample did not reproduce natively "
                                      "(encoding or stub wrong?) see %s" % rp))
        smt = run_mir_smt(prop, tier, crate_dir, logdir) if not args.only or \
            re.search(args.only, "mir_smt") else None
        if smt:
            entry, verdict, info = smt
            samples.append(entry)
            n_checks += entry["checks"]
            solver_time += entry["solver_s"]
            log("[vf] %s MIR  %-44s %6.1fs queries=%d paths=%s %s" % (
                {"pass": "ok  ", "fail": "FAIL", "undecided": "??  "}[verdict],
                entry["harness"], entry["solver_s"], entry["checks"],
                entry.get("paths"), entry.get("reason", "")))
            if verdict == "pass":
                nontrivial.add(("mir_smt", "MIR"))
            elif verdict == "fail":
                os.makedirs(REPLAY_DIR, exist_ok=True)
                hsh = hashlib.sha1(json.dumps(info, sort_keys=True).encode()).hexdigest()[:10]
                rp = os.path.join(REPLAY_DIR, "%s-mir_smt-%s.json" % (prop, hsh))
                json.dump(info, open(rp, "w"), indent=1)
                entry["replay"] = rp
                violations.append(("MIR", None, rp, [(info["solver_query"], str(info["counterexample"]))]))
            else:
                class _H:
                    name = entry["harness"]
                undecided.append(("MIR", _H, entry.get("reason", "")))
        for nm, ok, detail in extra_builds:
            samples.append({"build_fact": nm, "ok": ok, "detail": detail})
            if not ok:
                rp = os.path.join(REPLAY_DIR, "%s-build-%s.json" % (prop, nm))
                os.makedirs(REPLAY_DIR, exist_ok=True)
                json.dump({"property": prop, "build": nm, "detail": detail}, open(rp, "w"), indent=1)
                violations.append(("build", None, rp, [(nm, detail[:200])]))
        seen = set()
        for f, cfg, h in known_hits:
            key = (f["id"],)
            if key in seen:
                continue
            seen.add(key)
            log("KNOWN-FINDING: property=%s %s" % (prop, f["what"]))
        for cfg, errs in build_errors:
            log("[vf] BUILD ERROR in %s: %s" % (cfg, " | ".join(errs)))
        for cfg, h, rp, genuine in violations:
            log("VIOLATION property=%s replay=%s" % (prop, rp))
        for cfg, h in unreplayed:
            log("[vf] also failing (not replayed): %s %s" % (cfg, h.name))
        if violations:
            exit_code = 1
        elif undecided or build_errors:
            exit_code = 2
            for cfg, h, why in undecided:
                log("[vf] NOT DECIDED %s %s: %s" % (cfg, h.name, why))
        ev = {
            "property_id": prop, "tier": tier, "seed": seed, "level": "model_checking",
            "coverage": {
                "evaluations": n_checks,
                "distinct_nontrivial": len(nontrivial),
                "rule": "one case = one (harness, feature configuration) pair decided by "
                        "CBMC+CaDiCaL over all symbolic inputs within the harness bound; "
                        "evaluations = number of CBMC properties (assertions, overflow, bounds, "
                        "pointer and unwinding checks) discharged; a pair is non-trivial if it "
                        "was decided SUCCESSFUL with >=1 reachable check and all its cover "
                        "witnesses satisfied",
                "samples": samples,
                "harness_instances": len(results) + (1 if smt else 0),
                "undecided": len(undecided),
                "known_findings_hit": len(seen),
                "solver_seconds_total": round(solver_time, 1),
                "engine": "kani 0.68.0 / CBMC 6.11.0 / CaDiCaL; unwinding assertions on"
                          + ("; plus nightly MIR -> SMT-LIB2 -> z3 4.8.12 + cvc5 1.0.3 for one "
                             "loop-free arithmetic slice" if smt else ""),
                "exhaustive": False,
            },
            "assumptions": sorted({s for h in sel for s in
                                   ([("stub: " + h.stubs)] if h.stubs else []) +
                                   ([("assume: " + h.assume)] if h.assume else [])}),
            "wall_s": round(time.time() - t0, 1),
            "violations": len(violations),
        }
        if not args.only:
            json.dump(ev, open(ev_path, "w"), indent=1)
        log("[vf] %s tier=%s: %d instances, %d checks, %d undecided, %d violations, %.0fs wall -> exit %d"
            % (prop, tier, len(results) + (1 if smt else 0), n_checks, len(undecided), len(violations),
               time.time() - t0, exit_code))
    finally:
        if not os.environ.get("VERIF_KEEP"):
            shutil.rmtree(root, ignore_errors=True)
        try:
            os.remove(root + ".pid")
        except OSError:
            pass
        remove_tmp_targets()
    return exit_code


def qr_native(crate_dir, logdir, triples, tag, kind="qratio"):
    """run the real code on quartile triples (native test native_qr_replay of harness/gen.rs) or,
    kind == "len", on (len, tail_len, slice length) triples (native_len_replay);
    returns (failed, {inputs: outputs}, panics, ran)"""
    test = {"qratio": "native_qr_replay", "len": "native_len_replay"}[kind]
    cmd = ["cargo", "kani", "playback", "-Z", "concrete-playback", "--lib",
           "--no-default-features", "--features", features_of("K1"),
           "--", test, "--test-threads", "1", "--nocapture"]
    lf = os.path.join(logdir, "native-%s-%s.log" % (kind, tag))
    env_add = {}
    if triples and kind == "len":
        env_add["VERIF_LEN"] = ";".join("%d,%d,%d" % t for t in triples)
    elif triples:
        env_add["VERIF_QR"] = ";".join("%d,%d,%d,%d" % (a, b, c, 1 if d else 0)
                                       for a, b, c, d in triples)
    old = {k: os.environ.get(k) for k in env_add}
    os.environ.update(env_add)
    try:
        # (a counterexample with a multi-GiB slice may make changed code hash all of it)
        rc, to, _ = run_cmd(cmd, crate_dir, 3000 if kind == "len" else 1200, lf, limit=False)
    finally:
        for k, v in old.items():
            if v is None:
                os.environ.pop(k, None)
            else:
                os.environ[k] = v
    out = open(lf, errors="replace").read()
    table = {}
    for m in re.finditer(r"(?:^|\s)QR (\d+) (\d+) (\d+) ([01]) (\d+)$", out, re.M):
        table[(int(m.group(1)), int(m.group(2)), int(m.group(3)), m.group(4) == "1")] = int(m.group(5))
    for m in re.finditer(r"(?:^|\s)LN (\d+) (\d+) (\d+) (\d+) (\d+)$", out, re.M):
        table[(int(m.group(1)), int(m.group(2)), int(m.group(3)))] = (int(m.group(4)), int(m.group(5)))
    # (with --nocapture the test's own output sits between `test <name> ...` and the verdict)
    failed = re.search(r"^test result: FAILED", out, re.M) is not None
    ran = re.search(r"^running 1 test", out, re.M) is not None
    panics = [" ".join(p) for p in re.findall(r"panicked at ([^\n]*)\n([^\n]*)", out)][:4]
    return failed, table, panics, ran


def run_mir_smt(prop, tier, crate_dir, logdir):
    """Second back end (nightly MIR -> SMT-LIB2 -> z3 + cvc5), see run/mirq.py: the Q-ratio
    arithmetic at full width (C01, C10) and the length arithmetic of update (C11).
    Returns (evidence entry, verdict, replay info)."""
    if prop not in MIR_SMT_PROPS:
        return None
    kind = MIR_SMT_KIND[prop]
    sys.path.insert(0, os.path.dirname(os.path.abspath(__file__)))
    import mirq
    t0 = time.time()
    to = int(os.environ.get("VERIF_SMT_TIMEOUT", "120"))
    if kind == "qratio":
        r = mirq.run_check(crate_dir, tgt_dir("mir"), logdir, timeout=to)
        hname = "mir_smt::qratio_full_width"
    else:
        r = mirq.run_check_len(crate_dir, tgt_dir("mir"), logdir, timeout=to)
        hname = "mir_smt::update_len_full_width"
    entry = {"harness": hname, "config": "MIR", "features": "std,easy-functions",
             "verdict": {"pass": "pass", "fail": "fail", "undecided": "undecided"}[r["verdict"]],
             "engine": "rustc nightly -Zunpretty=mir -> SMT-LIB2 (QF_BV + FP) -> z3 4.8.12, cvc5 1.0.3 "
                       "(bit-blasting and --solve-bv-as-int=sum)",
             "checks": len(r["queries"]),
             "failed_checks": sum(1 for q in r["queries"] if q["verdict"].startswith("refuted")),
             "queries": {k: sum(1 for q in r["queries"] if q["kind"] == k)
                         for k in sorted({q["kind"] for q in r["queries"]})},
             "solver_s": r.get("solver_s", 0.0), "functions": r["functions"], "bound": r["bound"],
             "assumptions": r["assumptions"], "paths": r.get("paths"),
             "havocked_statements": r.get("havocked", []), "stubs": "", "stubs_applied": []}
    if r["reason"]:
        entry["reason"] = r["reason"][:600]
    info = None
    if r["verdict"] == "fail":
        if kind == "qratio":
            q1, q2, q3, pint = mirq.replay_values(r)
            failed, table, panics, ran = qr_native(crate_dir, logdir, [(q1, q2, q3, pint)], "replay")
            cexd = {"q1": q1, "q2": q2, "q3": q3, "pure_integer_mode": pint}
            how = "VERIF_QR=%d,%d,%d,%d python3 run/vf.py native K1 native_qr_replay" % (
                q1, q2, q3, 1 if pint else 0)
            ntest = "native_qr_replay"
            tbl = {"%d,%d,%d,%d" % k: v for k, v in table.items()}
        else:
            ln, tl, n = mirq.replay_values_len(r)
            failed, table, panics, ran = qr_native(crate_dir, logdir, [(ln, tl, n)], "replay", "len")
            cexd = {"len": ln, "tail_len": tl, "slice_len": n}
            how = "VERIF_LEN=%d,%d,%d python3 run/vf.py native K1 native_len_replay" % (ln, tl, n)
            ntest = "native_len_replay"
            tbl = {"%d,%d,%d" % k: list(v) for k, v in table.items()}
        info = {"property": prop, "harness": hname, "config": "MIR", "kind": kind,
                "counterexample": cexd, "solver_query": r["cex"]["query"], "native_test": ntest,
                "native": {"failed": failed, "panics": panics, "real_code_value": tbl},
                "reproduced_natively": bool(failed and panics), "how_to_replay": how}
        if not info["reproduced_natively"]:
            entry["verdict"] = "undecided"
            entry["reason"] = "solver counterexample did not reproduce natively (translator wrong?)"
    elif r["verdict"] == "pass" and tier == "thorough":
        # translator validation: the real code's values on a fixed table of inputs must be the
        # values the MIR-derived terms take on the same inputs
        failed, table, panics, ran = qr_native(crate_dir, logdir, None, "table", kind)
        if failed or not table:
            entry["verdict"] = "undecided"
            entry["reason"] = "translator validation: native table run failed: %s" % panics
        else:
            bad = mirq.validate_against(table, logdir) if kind == "qratio" else \
                mirq.validate_len_against(table, logdir)
            entry["translator_validation"] = {"triples": len(table), "mismatches": bad[:3]}
            entry["checks"] += len(table)
            if bad:
                entry["verdict"] = "undecided"
                entry["reason"] = "translator validation: encoding disagrees with the real code on %s" % bad[:3]
    entry["wall_s"] = round(time.time() - t0, 1)
    return entry, entry["verdict"], info


def run_extra_builds(prop, tier, crate_dir, logdir):
    """Build facts (not solver queries): C18's `still compiles without std and alloc'."""
    out = []
    if prop == "C18":
        tgt = tgt_dir("nostd")
        cmd = ["cargo", "build", "--offline", "--lib", "--no-default-features",
               "--target-dir", tgt]
        lf = os.path.join(logdir, "build-nostd.log")
        rc, to, wall = run_cmd(cmd, crate_dir, 600, lf, limit=False)
        txt = open(lf, errors="replace").read()
        out.append(("no-default-features-lib", rc == 0 and not to,
                    "rc=%s %.0fs %s" % (rc, wall, " | ".join(
                        re.findall(r"^error.*$", txt, re.M)[:5]))))
    return out


def cmd_replay(args):
    info = json.load(open(args.path))
    reg = {h.full: h for h in load_registry()}
    if "harness" not in info:
        log(json.dumps(info, indent=1))
        return 1
    if info.get("config") == "MIR":
        c = info["counterexample"]
        root, crate_dir = make_overlay("replay")
        try:
            ld = os.path.join(BUILD, "logs", "replay")
            os.makedirs(ld, exist_ok=True)
            if info.get("kind") == "len":
                failed, table, panics, ran = qr_native(
                    crate_dir, ld, [(c["len"], c["tail_len"], c["slice_len"])], "replay", "len")
            else:
                failed, table, panics, ran = qr_native(
                    crate_dir, ld, [(c["q1"], c["q2"], c["q3"], c["pure_integer_mode"])], "replay")
            log("[vf] real code on %s: %s %s" % (c, table, panics))
            log("[vf] native replay: %s" % ("the violation reproduces" if failed else "no failure"))
            return 1 if failed else 0
        finally:
            shutil.rmtree(root, ignore_errors=True)
            try:
                os.remove(root + ".pid")
            except OSError:
                pass
    h = reg[info["harness"]]
    root, crate_dir = make_overlay("replay")
    try:
        hfile = os.path.join(crate_dir, "src", "verif", h.file)
        with open(hfile, "a") as f:
            f.write("\n#[cfg(test)]\nmod verif_playback_%s {\n    use super::*;\n" % h.name)
            for t in info["tests"]:
                f.write(t["code"] + "\n")
            f.write("}\n")
        cmd = ["cargo", "kani", "playback", "-Z", "concrete-playback", "--lib",
               "--no-default-features", "--features", info["features"], "--",
               "kani_concrete_playback_%s_" % h.name, "--test-threads", "1"]
        p = subprocess.run(cmd, cwd=crate_dir, env=dict(os.environ, CARGO_NET_OFFLINE="true"))
        log("[vf] native replay exit status %d (non-zero = the violation reproduces)" % p.returncode)
        return 1 if p.returncode != 0 else 0
    finally:
        shutil.rmtree(root, ignore_errors=True)


def cmd_native(args):
    """Run hand-written native confirmation tests of the harness files on /repo's current tree
    (they must PASS on a tree where the property holds)."""
    root, crate_dir = make_overlay("native-%s" % args.cfg)
    try:
        cmd = ["cargo", "kani", "playback", "-Z", "concrete-playback", "--lib",
               "--no-default-features", "--features", features_of(args.cfg), "--",
               args.filter, "--test-threads", "4"]
        p = subprocess.run(cmd, cwd=crate_dir, env=dict(os.environ, CARGO_NET_OFFLINE="true"),
                           stdout=subprocess.PIPE, stderr=subprocess.STDOUT, text=True)
        for ln in p.stdout.splitlines():
            if re.match(r"^(test |running|error|thread .* panicked)", ln) or "panicked at" in ln:
                log(ln[:300])
        return p.returncode
    finally:
        shutil.rmtree(root, ignore_errors=True)
        try:
            os.remove(root + ".pid")
        except OSError:
            pass


def cmd_list(args):
    for h in load_registry():
        if args.property and args.property not in h.props:
            continue
        print("%-8s %-9s %-44s %-18s t=%-5d %s" % (",".join(h.props), h.tier, h.name,
                                                   ",".join(h.cfgs), h.timeout, h.file))
    return 0


def cmd_setup(args):
    """Warm the per-configuration dependency caches (offline)."""
    os.makedirs(BUILD, exist_ok=True)
    for tool in (["cargo", "kani", "--version"], ["cbmc", "--version"],
                 # second back end of C01 (run/mirq.py)
                 ["cargo", "+nightly", "--version"], ["z3", "--version"], ["cvc5", "--version"]):
        subprocess.run(tool, check=True, stdout=subprocess.DEVNULL)
    load_registry()
    log("[vf] setup ok")
    return 0


def main():
    ap = argparse.ArgumentParser()
    sp = ap.add_subparsers(dest="cmd", required=True)
    c = sp.add_parser("check")
    c.add_argument("property")
    c.add_argument("--tier", choices=["quick", "thorough"])
    c.add_argument("--only")
    r = sp.add_parser("replay")
    r.add_argument("path")
    l = sp.add_parser("list")
    l.add_argument("property", nargs="?")
    sp.add_parser("setup")
    n = sp.add_parser("native")
    n.add_argument("cfg")
    n.add_argument("filter")
    a = ap.parse_args()
    sys.exit({"check": cmd_check, "replay": cmd_replay, "list": cmd_list,
              "setup": cmd_setup, "native": cmd_native}[a.cmd](a))


if __name__ == "__main__":
    main()

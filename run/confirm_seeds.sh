#!/bin/bash
# Independent confirmation of every seeded change in a scratch worktree (outside /repo and /verif):
#  (1) the patch applies and the whole existing suite passes with it,
#  (2) the demonstration fails with the patch and (3) passes without it.
# usage: confirm_seeds.sh [IDs...]   results -> /verif/seeded/<id>/confirm.txt
set -u
declare -A FEAT
FEAT[C02]="--no-default-features --features std,easy-functions,opt-default,simd"
FEAT[C04]="--features opt-low-memory-hex-str-decode-half-table"
FEAT[C05]="--features opt-low-memory-hex-str-decode-half-table"
FEAT[C07]="--no-default-features --features std,easy-functions,opt-default,simd"
FEAT[C11]="--release"
FEAT[C15]="--features strict-parser"
FEAT[C16]="--features serde"
IDS="${@:-C01 C02 C03 C04 C05 C06 C07 C08 C09 C10 C11 C12 C13 C14 C15 C16 C17 C18}"
export CARGO_TARGET_DIR=/tmp/confirm/target CARGO_NET_OFFLINE=true
mkdir -p /tmp/confirm
for id in $IDS; do
  wt=/tmp/confirm/$id
  rm -rf $wt; git -C /repo worktree prune; git -C /repo worktree add -q --detach $wt HEAD || continue
  out=/verif/seeded/$id/confirm.txt
  {
    echo "seed $id confirmed at /repo commit $(git -C /repo rev-parse --short HEAD) on $(date -u +%FT%TZ)"
    cd $wt
    git apply /verif/seeded/$id/patch.diff && echo "patch applies: yes" || echo "patch applies: NO"
    cargo test --workspace --no-fail-fast --offline > /tmp/confirm/$id.suite.log 2>&1
    echo "existing suite with the change: $(grep -E '^test result' /tmp/confirm/$id.suite.log | tr '\n' ';')"
    mkdir -p fast-tlsh/tests; cp /verif/seeded/$id/seed_demo.rs fast-tlsh/tests/seed_demo.rs
    f="${FEAT[$id]:-}"
    if grep -q "^DEMO_FLAGS:" /verif/seeded/$id/agent_meta.txt 2>/dev/null; then f="$(grep "^DEMO_FLAGS:" /verif/seeded/$id/agent_meta.txt | head -1 | sed "s/^DEMO_FLAGS://")"; fi
    echo "demo command: cargo test --offline -p fast-tlsh --test seed_demo $f"
    cargo test --offline -p fast-tlsh --test seed_demo $f > /tmp/confirm/$id.demo_with.log 2>&1
    echo "demo WITH the change: exit=$? $(grep -E '^test result' /tmp/confirm/$id.demo_with.log | tr '\n' ';')"
    git checkout -q -- fast-tlsh/src
    cargo test --offline -p fast-tlsh --test seed_demo $f > /tmp/confirm/$id.demo_without.log 2>&1
    echo "demo WITHOUT the change: exit=$? $(grep -E '^test result' /tmp/confirm/$id.demo_without.log | tr '\n' ';')"
  } > $out 2>&1
  cd /; git -C /repo worktree remove --force $wt
  cat $out
done
rm -rf /tmp/confirm/target

#!/bin/bash
# Runs the quick check of each seed's property against a scratch worktree of /repo with the seeded
# change applied (VERIF_REPO), so that /repo itself and the committed evidence are never touched.
# usage: try_seeds.sh [IDs...]   results -> /verif/seeded/<id>/check.txt
set -u
IDS="${@:-C01 C02 C03 C04 C05 C06 C07 C08 C09 C10 C11 C12 C13 C14 C15 C16 C17 C18}"
mkdir -p /tmp/seedrun
for id in $IDS; do
  wt=/tmp/seedrun/$id
  rm -rf $wt; git -C /repo worktree prune; git -C /repo worktree add -q --detach $wt HEAD || continue
  ( cd $wt && git apply /verif/seeded/$id/patch.diff ) || { echo "$id: patch does not apply"; continue; }
  cd /verif
  start=$(date +%s)
  prop=${id%%-*}
  VERIF_REPO=$wt VERIF_TAG=-seed VERIF_EVIDENCE_DIR=/tmp/seedrun/evidence ${TRY_ENV:-} python3 run/vf.py check $prop ${TRY_ARGS:-} > /tmp/seedrun/$id.log 2>&1
  rc=$?
  {
    echo "seed $id vs check $prop (quick) at /verif $(git -C /verif rev-parse --short HEAD): exit=$rc wall=$(( $(date +%s) - start ))s"
    grep -E "^VIOLATION|^KNOWN" /tmp/seedrun/$id.log | cut -c1-400 | head -5
    grep -E "^\[vf\] (FAIL|\?\?|counterexample|NOT DECIDED|also failing)" /tmp/seedrun/$id.log | cut -c1-400 | head -20
  } > /verif/seeded/$id/check.txt
  cat /verif/seeded/$id/check.txt
  git -C /repo worktree remove --force $wt
done

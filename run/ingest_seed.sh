#!/bin/bash
# Takes a sub-agent's deliverables (/tmp/seed3/<P>.out: patch.diff, seed_demo.rs, agent_meta.txt) into
# /verif/seeded/<P>-<n>, confirms them independently (confirm_seeds.sh) and runs the property's quick
# check against a scratch worktree with the change applied (try_seeds.sh).
# usage: ingest_seed.sh <property> <new seed id>      e.g. ingest_seed.sh C02 C02-3
set -u
P=$1; ID=$2; src=/tmp/seed3/$P.out
[ -f $src/patch.diff ] && [ -f $src/seed_demo.rs ] || { echo "$P: deliverables missing"; exit 2; }
mkdir -p /verif/seeded/$ID
cp $src/patch.diff $src/seed_demo.rs $src/agent_meta.txt /verif/seeded/$ID/
# confirm in its own target dir so that several can run side by side
sed "s#/tmp/confirm#/tmp/confirm-$ID#g" /verif/run/confirm_seeds.sh > /tmp/confirm-$ID.sh
bash /tmp/confirm-$ID.sh $ID; rm -rf /tmp/confirm-$ID /tmp/confirm-$ID.sh
bash /verif/run/try_seeds.sh $ID

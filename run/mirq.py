#!/usr/bin/env python3
"""MIR -> SMT checks of two loop-free arithmetic slices at FULL width: the Q-ratio arithmetic of
`finalize_with_options` (C01, C10; described first) and the length arithmetic of `update` (C11, C17;
see run_check_len below).

The Kani lemmas f_*_q* decide the Q-ratio arithmetic on restricted quartile domains only (two
full-width dividers in one SAT query do not finish).  This second back end closes that gap for
the loop-free arithmetic slice:

  * the nightly compiler dumps the MIR of the crate as it is in the tree under test;
  * the slice of `generate::inner::Generator::finalize_with_options` from the return of the last
    `select_nth_unstable` call to the call of `aggregate_buckets` is executed symbolically, path
    by path, into SMT-LIB2 terms (bit-vectors for the integers, IEEE-754 `Float32` for f32);
    statements the translator does not model are HAVOCKED (fresh value: over-approximation);
  * the reference formulas of the property are written here by hand;
  * for every path reaching `FuzzyHashQRatios::new(a, b)` the queries
        path /\ order /\ a != ref(q1, q3)      path /\ order /\ b != ref(q2, q3)
        path /\ order /\ not(<MIR assert>)     (overflow, division by zero)
    must be `unsat` for BOTH z3 and cvc5 (q1, q2, q3 = the values handed to aggregate_buckets on
    that path, so the dummy (1,1,1) quartiles are covered); a witness query per path must be `sat`;
  * `sat` on a refutation query gives concrete quartiles, which the caller replays against the
    real code (native test `native_qr_replay`); `unknown`, time-outs, `(error` lines, solver
    disagreement or MIR outside the translator's fragment are reported as UNDECIDED, never pass.
"""
import os
import re
import subprocess
import time

INT_BITS = {"u8": 8, "u16": 16, "u32": 32, "u64": 64, "u128": 128, "usize": 64,
            "i8": 8, "i16": 16, "i32": 32, "i64": 64, "i128": 128, "isize": 64}
FLOATS = {"f32": (8, 24), "f64": (11, 53)}


class Unsupported(Exception):
    pass


# ------------------------------------------------------------------ MIR dump and parsing

def dump_mir(crate_dir, target_dir, logfile, features="std,easy-functions"):
    lib = os.path.join(crate_dir, "src", "lib.rs")
    os.utime(lib, None)   # an up-to-date crate prints nothing
    cmd = ["cargo", "+nightly", "rustc", "--offline", "--lib", "--no-default-features",
           "--features", features, "--target-dir", target_dir, "--",
           "-Zunpretty=mir", "-C", "debug-assertions=off", "-C", "overflow-checks=on"]
    env = dict(os.environ, CARGO_NET_OFFLINE="true", CARGO_TERM_COLOR="never")
    env.pop("RUSTUP_TOOLCHAIN", None)
    with open(logfile, "w") as lf:
        p = subprocess.run(cmd, cwd=crate_dir, env=env, stdout=subprocess.PIPE, stderr=lf,
                           text=True, timeout=900)
    if p.returncode != 0 or "fn " not in p.stdout:
        raise Unsupported("MIR dump failed (rc=%s), see %s" % (p.returncode, logfile))
    return p.stdout


class MirFn:
    def __init__(self, header, lines):
        self.header = header
        self.types = {}
        self.blocks = {}
        self.debug = []
        cur = None
        for m in re.finditer(r"(_\d+): ([^,()]+(?:<[^()]*>)?)", header[header.index("("):]):
            self.types.setdefault(m.group(1), m.group(2).strip())
        for ln in lines:
            s = ln.strip()
            m = re.match(r"let (?:mut )?(_\d+): (.+);$", s)
            if m:
                self.types[m.group(1)] = m.group(2)
                continue
            m = re.match(r"debug (\w+) => (_\d+);$", s)
            if m:
                self.debug.append((m.group(1), m.group(2)))
                continue
            m = re.match(r"(bb\d+)(?: \(cleanup\))?: \{$", s)
            if m:
                cur = m.group(1)
                self.blocks[cur] = []
                continue
            if s == "}":
                cur = None
                continue
            if cur is not None and s:
                self.blocks[cur].append(s)
        self.addr_taken = set()
        for b in self.blocks.values():
            for s in b:
                for m in re.finditer(r"&(?:mut |raw (?:const|mut) )?\(?(_\d+)\b", s):
                    self.addr_taken.add(m.group(1))


def find_fn(mir, pred):
    out = []
    lines = mir.splitlines()
    i = 0
    while i < len(lines):
        if lines[i].startswith("fn ") and pred(lines[i]):
            j = i + 1
            while j < len(lines) and lines[j] != "}":
                j += 1
            out.append(MirFn(lines[i], lines[i + 1:j]))
            i = j
        i += 1
    return out


# ------------------------------------------------------------------ values and SMT terms

class Val:
    """scalar: (term, ty); tuple: fields; opaque: unknown aggregate/pointer"""
    def __init__(self, term=None, ty=None, fields=None, opaque=False, named=None):
        # ty == "slice": `term` is the LENGTH of the slice / array behind a reference (usize)
        self.term, self.ty, self.fields, self.opaque, self.named = term, ty, fields, opaque, named


def slice_len_of_type(ty):
    """reference types whose pointee has a length: &[T], &mut [T], &[T; N] with literal N"""
    if not ty:
        return None
    m = re.match(r"&(?:'\w+ )?(?:mut )?\[[^;\]]+\]$", ty.strip())
    if m:
        return "?"
    m = re.match(r"&(?:'\w+ )?(?:mut )?\[[^;\]]+; (\d+)(?:_usize)?\]$", ty.strip())
    if m:
        return int(m.group(1))
    return None


def bv(n, bits):
    return "(_ bv%d %d)" % (n % (1 << bits), bits)


def sort_of(ty):
    if ty == "bool":
        return "Bool"
    if ty in INT_BITS:
        return "(_ BitVec %d)" % INT_BITS[ty]
    if ty in FLOATS:
        return "(_ FloatingPoint %d %d)" % FLOATS[ty]
    return None


def fp_of_int(term, ty, fty):
    e, s = FLOATS[fty]
    if ty.startswith("u"):
        return "((_ to_fp_unsigned %d %d) RNE %s)" % (e, s, term)
    return "((_ to_fp %d %d) RNE %s)" % (e, s, term)


def fp_pow2(k, fty):
    e, s = FLOATS[fty]
    bias = (1 << (e - 1)) - 1
    return "(fp #b0 #b%s #b%s)" % (format(bias + k, "0%db" % e), "0" * (s - 1))


def int_of_fp(term, fty, ity):
    """Rust `as` (saturating): NaN -> 0, below range -> MIN, above -> MAX, else truncation."""
    e, s = FLOATS[fty]
    bits = INT_BITS[ity]
    zero = "((_ to_fp %d %d) RNE 0.0)" % (e, s)
    if ity.startswith("u"):
        return ("(ite (fp.isNaN {x}) {z} (ite (fp.lt {x} {fz}) {z} (ite (fp.geq {x} {top}) {mx} "
                "((_ fp.to_ubv {b}) RTZ {x}))))").format(
                    x=term, z=bv(0, bits), fz=zero, top=fp_pow2(bits, fty),
                    mx=bv((1 << bits) - 1, bits), b=bits)
    lo = "(fp.neg %s)" % fp_pow2(bits - 1, fty)
    return ("(ite (fp.isNaN {x}) {z} (ite (fp.lt {x} {lo}) {mn} (ite (fp.geq {x} {top}) {mx} "
            "((_ fp.to_sbv {b}) RTZ {x}))))").format(
                x=term, z=bv(0, bits), lo=lo, top=fp_pow2(bits - 1, fty),
                mn=bv(1 << (bits - 1), bits), mx=bv((1 << (bits - 1)) - 1, bits), b=bits)


def int_cast(term, src, dst):
    a, b = INT_BITS[src], INT_BITS[dst]
    if a == b:
        return term
    if b < a:
        return "((_ extract %d 0) %s)" % (b - 1, term)
    ext = "zero_extend" if src.startswith("u") else "sign_extend"
    return "((_ %s %d) %s)" % (ext, b - a, term)


def split_top(s):
    out, depth, cur = [], 0, ""
    for ch in s:
        if ch in "([<{":
            depth += 1
        elif ch in ")]>}":
            depth -= 1
        if ch == "," and depth == 0:
            out.append(cur.strip())
            cur = ""
        else:
            cur += ch
    if cur.strip():
        out.append(cur.strip())
    return out


# ------------------------------------------------------------------ symbolic execution of a slice

class Path:
    def __init__(self):
        self.env = {}
        self.cond = []          # SMT Bool terms
        self.obligs = []        # (msg, term that must hold)
        self.trace = []
        self.marks = {}
        self.mem = {}           # tracked places behind a reference: "(*_1).4" -> Val
        self.escaped = set()    # ... whose address was taken mutably: every read is fresh

    def clone(self):
        q = Path()
        q.env = {k: Val(v.term, v.ty, list(v.fields) if v.fields is not None else None,
                        v.opaque, dict(v.named) if v.named is not None else None)
                 for k, v in self.env.items()}
        q.mem = dict(self.mem)
        q.escaped = set(self.escaped)
        q.cond, q.obligs, q.trace = list(self.cond), list(self.obligs), list(self.trace)
        q.marks = dict(self.marks)
        return q


class Exec:
    def __init__(self, fn, named_calls, stop_call, end_call, consts=None, stop_store=None):
        self.consts = consts          # resolver of named constants (or None)
        self.stop_store = stop_store  # regex of a place: the path ends after a store to it
        self.paths_ret = []           # paths that ended in `return`
        self.fn = fn
        self.decls = {}         # smt name -> sort
        self.havocs = []        # statements over-approximated
        self.named_calls = named_calls
        self.stop_call = stop_call
        self.end_call = end_call
        self.nfresh = 0
        self.paths_done = []
        self.paths_dead = 0

    def fresh(self, ty, hint):
        srt = sort_of(ty)
        sl = slice_len_of_type(ty)
        if sl == "?":
            self.nfresh += 1
            name = "h%d_len%s" % (self.nfresh, re.sub(r"\W", "", hint)[:12])
            self.decls[name] = "(_ BitVec 64)"
            return Val(name, "slice")
        if sl is not None:
            return Val(bv(sl, 64), "slice")
        if srt is None:
            return Val(opaque=True)
        self.nfresh += 1
        name = "h%d_%s" % (self.nfresh, re.sub(r"\W", "", hint)[:20])
        self.decls[name] = srt
        return Val(name, ty)

    def input(self, local):
        ty = self.fn.types.get(local)
        srt = sort_of(ty) if ty else None
        sl = slice_len_of_type(ty)
        if sl == "?":
            name = "len_in" + local
            self.decls[name] = "(_ BitVec 64)"
            return Val(name, "slice")
        if sl is not None:
            return Val(bv(sl, 64), "slice")
        if srt is None:
            return Val(opaque=True)
        name = "in" + local
        self.decls[name] = srt
        return Val(name, ty)

    def read_local(self, p, local):
        if local in self.fn.addr_taken:
            return self.fresh(self.fn.types.get(local, "?"), "addr" + local)
        if local not in p.env:
            p.env[local] = self.input(local)
        return p.env[local]

    def operand(self, p, s, want_ty=None):
        s = s.strip()
        m = re.match(r"(?:copy|move) (.+)$", s)
        if m:
            return self.place_read(p, m.group(1).strip(), want_ty)
        m = re.match(r"const (.+)$", s)
        if m:
            c = m.group(1).strip()
            if c in ("true", "false"):
                return Val(c, "bool")
            mm = re.match(r"(-?\d+)_(\w+)$", c)
            if mm and mm.group(2) in INT_BITS:
                return Val(bv(int(mm.group(1)), INT_BITS[mm.group(2)]), mm.group(2))
            mm = re.match(r"core::num::<impl (\w+)>::(MAX|MIN)$", c)
            if mm and mm.group(1) in INT_BITS:
                ty, bits = mm.group(1), INT_BITS[mm.group(1)]
                sg = not ty.startswith("u")
                v = ((1 << (bits - 1)) - 1 if sg else (1 << bits) - 1) if mm.group(2) == "MAX" \
                    else (-(1 << (bits - 1)) if sg else 0)
                return Val(bv(v, bits), ty)
            if self.consts is not None:
                v = self.consts(c)
                if v is not None:
                    return v
            mm = re.match(r"(-?[\d.]+(?:[eE][-+]?\d+)?)(f32|f64)$", c)
            if mm:
                from fractions import Fraction
                fr = Fraction(mm.group(1))
                e, sg = FLOATS[mm.group(2)]
                lit = "(/ %d.0 %d.0)" % (abs(fr.numerator), fr.denominator)
                if fr < 0:
                    lit = "(- %s)" % lit
                return Val("((_ to_fp %d %d) RNE %s)" % (e, sg, lit), mm.group(2))
            if want_ty and sort_of(want_ty):
                self.havocs.append("const " + c)
                return self.fresh(want_ty, "const")
            return Val(opaque=True)
        raise Unsupported("operand: " + s)

    def place_read(self, p, pl, want_ty=None):
        m = re.match(r"(_\d+)$", pl)
        if m:
            return self.read_local(p, m.group(1))
        m = re.match(r"\((_\d+)\.(\d+): ([^)]+)\)$", pl)
        if m:
            base = self.read_local(p, m.group(1))
            k, ty = int(m.group(2)), m.group(3).strip()
            if base.fields is not None and k < len(base.fields):
                return base.fields[k]
            self.havocs.append("field read " + pl)
            return self.fresh(ty, "fld")
        m = re.match(r"\(\(\*(_\d+)\)\.(\d+): ([^()]+)\)$", pl)
        if m and sort_of(m.group(3).strip()):
            key, ty = "(*%s).%s" % (m.group(1), m.group(2)), m.group(3).strip()
            if key in p.escaped:
                self.havocs.append("read of escaped place " + key)
                return self.fresh(ty, "esc")
            if key not in p.mem:
                name = "m%s_%s" % (m.group(1), m.group(2))
                self.decls[name] = sort_of(ty)
                p.mem[key] = Val(name, ty)
            return p.mem[key]
        # deref or deeper projection: unknown memory
        m = re.search(r": ([^():]+)\)$", pl)
        ty = m.group(1).strip() if m else want_ty
        self.havocs.append("memory read " + pl)
        return self.fresh(ty or "?", "mem")

    def rvalue(self, p, rv, dst_ty):
        rv = rv.strip()
        m = re.match(r"(\w+)\((.*)\)$", rv)
        if m and m.group(1) in BINOPS and len(split_top(m.group(2))) == 2:
            a, b = [self.operand(p, x) for x in split_top(m.group(2))]
            return self.binop(m.group(1), a, b, dst_ty)
        if m and m.group(1) in ("Not", "Neg") and len(split_top(m.group(2))) == 1:
            a = self.operand(p, m.group(2))
            if a.term is None:
                return self.fresh(dst_ty, "un")
            if m.group(1) == "Not":
                return Val("(not %s)" % a.term if a.ty == "bool" else "(bvnot %s)" % a.term, a.ty)
            return Val("(fp.neg %s)" % a.term if a.ty in FLOATS else "(bvneg %s)" % a.term, a.ty)
        m = re.match(r"(.+) as (\w+) \((\w+)\)$", rv)
        if m:
            a = self.operand(p, m.group(1))
            dst, kind = m.group(2), m.group(3)
            if a.term is None:
                return self.fresh(dst, "cast")
            if kind == "IntToInt" and a.ty in INT_BITS and dst in INT_BITS:
                return Val(int_cast(a.term, a.ty, dst), dst)
            if kind == "IntToInt" and a.ty == "bool" and dst in INT_BITS:
                return Val("(ite %s %s %s)" % (a.term, bv(1, INT_BITS[dst]), bv(0, INT_BITS[dst])), dst)
            if kind == "IntToFloat" and a.ty in INT_BITS and dst in FLOATS:
                return Val(fp_of_int(a.term, a.ty, dst), dst)
            if kind == "FloatToInt" and a.ty in FLOATS and dst in INT_BITS:
                return Val(int_of_fp(a.term, a.ty, dst), dst)
            if kind == "FloatToFloat" and a.ty in FLOATS and dst in FLOATS:
                return Val("((_ to_fp %d %d) RNE %s)" % (FLOATS[dst] + (a.term,)), dst)
            raise Unsupported("cast: " + rv)
        if rv.startswith("(") and rv.endswith(")") and not re.match(r"\(_\d+\.\d+:", rv):
            return Val(fields=[self.operand(p, x) for x in split_top(rv[1:-1])])
        if re.match(r"(copy|move|const) ", rv):
            return self.operand(p, rv, dst_ty)
        m = re.match(r"PtrMetadata\((.+)\)$", rv)
        if m:
            a = self.operand(p, m.group(1))
            if a.ty == "slice":
                return Val(a.term, "usize")
            self.havocs.append("PtrMetadata of unknown pointer")
            return self.fresh("usize", "meta")
        m = re.match(r"[\w:<>, ]+? \{ (.*) \}$", rv)
        if m:   # struct aggregate with named fields (ranges)
            named = {}
            for part in split_top(m.group(1)):
                k, _, v = part.partition(":")
                named[k.strip()] = self.operand(p, v.strip())
            return Val(named=named)
        m = re.match(r"&(mut )?\(\(\*(_\d+)\)\.(\d+): ([^()]+)\)$", rv)
        if m:
            key = "(*%s).%s" % (m.group(2), m.group(3))
            if m.group(1):
                # a mutable borrow of a field: whoever holds it may write that field (and, in safe
                # Rust, nothing else of the struct)
                p.escaped.add(key)
                p.mem.pop(key, None)
            sl = slice_len_of_type("&" + m.group(4).strip())
            if isinstance(sl, int):
                return Val(bv(sl, 64), "slice")
            return Val(opaque=True)
        # anything else (references, aggregates of other kinds, discriminants, ...): havoc
        self.havocs.append("rvalue " + rv[:80])
        return self.fresh(dst_ty or "?", "rv")

    def binop(self, op, a, b, dst_ty):
        if a.term is None or b.term is None:
            self.havocs.append("binop on opaque")
            return self.fresh(dst_ty or "?", "bin")
        ty = a.ty
        if op in ("Shl", "Shr", "ShlUnchecked", "ShrUnchecked") and b.ty != a.ty and \
                a.ty in INT_BITS and b.ty in INT_BITS:
            b = Val(int_cast(b.term, b.ty, a.ty), a.ty)
        elif a.ty != b.ty:
            raise Unsupported("binop %s on %s and %s" % (op, a.ty, b.ty))
        if ty in FLOATS:
            tab = {"Add": "(fp.add RNE %s %s)", "Sub": "(fp.sub RNE %s %s)",
                   "Mul": "(fp.mul RNE %s %s)", "Div": "(fp.div RNE %s %s)",
                   "Lt": "(fp.lt %s %s)", "Le": "(fp.leq %s %s)", "Gt": "(fp.gt %s %s)",
                   "Ge": "(fp.geq %s %s)", "Eq": "(fp.eq %s %s)", "Ne": "(not (fp.eq %s %s))"}
            if op not in tab:
                raise Unsupported("float binop " + op)
            return Val(tab[op] % (a.term, b.term), "bool" if op in CMP else ty)
        if ty == "bool":
            tab = {"Eq": "(= %s %s)", "Ne": "(distinct %s %s)", "BitAnd": "(and %s %s)",
                   "BitOr": "(or %s %s)", "BitXor": "(xor %s %s)"}
            if op not in tab:
                raise Unsupported("bool binop " + op)
            return Val(tab[op] % (a.term, b.term), "bool")
        if ty not in INT_BITS:
            raise Unsupported("binop on " + str(ty))
        bits = INT_BITS[ty]
        sg = not ty.startswith("u")
        if op in ("AddWithOverflow", "SubWithOverflow", "MulWithOverflow"):
            core = {"A": "bvadd", "S": "bvsub", "M": "bvmul"}[op[0]]
            ext = "sign_extend" if sg else "zero_extend"
            wa, wb = ["((_ %s %d) %s)" % (ext, bits, x.term) for x in (a, b)]
            wide = "(%s %s %s)" % (core, wa, wb)
            res = "(%s %s %s)" % (core, a.term, b.term)
            back = "((_ %s %d) %s)" % (ext, bits, res)
            return Val(fields=[Val(res, ty), Val("(distinct %s %s)" % (wide, back), "bool")])
        tab = {"Add": "bvadd", "Sub": "bvsub", "Mul": "bvmul", "AddUnchecked": "bvadd",
               "SubUnchecked": "bvsub", "MulUnchecked": "bvmul",
               "Div": "bvsdiv" if sg else "bvudiv", "Rem": "bvsrem" if sg else "bvurem",
               "BitAnd": "bvand", "BitOr": "bvor", "BitXor": "bvxor", "Shl": "bvshl",
               "ShlUnchecked": "bvshl", "Shr": "bvashr" if sg else "bvlshr",
               "ShrUnchecked": "bvashr" if sg else "bvlshr"}
        if op in tab:
            return Val("(%s %s %s)" % (tab[op], a.term, b.term), ty)
        cmpt = {"Eq": "=", "Ne": "distinct", "Lt": "bvslt" if sg else "bvult",
                "Le": "bvsle" if sg else "bvule", "Gt": "bvsgt" if sg else "bvugt",
                "Ge": "bvsge" if sg else "bvuge"}
        if op in cmpt:
            return Val("(%s %s %s)" % (cmpt[op], a.term, b.term), "bool")
        raise Unsupported("binop " + op)

    def assign(self, p, place, val):
        m = re.match(r"(_\d+)$", place)
        if m:
            p.env[m.group(1)] = val
            return
        m = re.match(r"\((_\d+)\.(\d+): [^)]+\)$", place)
        if m and m.group(1) in p.env and p.env[m.group(1)].fields is not None:
            p.env[m.group(1)].fields[int(m.group(2))] = val
            return
        m = re.match(r"\(\(\*(_\d+)\)\.(\d+): ([^()]+)\)$", place)
        if m and val.term is not None and val.ty != "slice":
            key = "(*%s).%s" % (m.group(1), m.group(2))
            if key not in p.escaped:
                p.mem[key] = val
                if self.stop_store and re.search(self.stop_store, place):
                    p.marks["stored"] = key
                return
        # store through a pointer or into an unknown aggregate: tracked locals are never
        # address-taken (those are havocked on every read), so nothing tracked changes
        self.havocs.append("store " + place[:60])

    def call(self, p, callee, args, dst_ty):
        m = re.match(r"core::num::<impl (\w+)>::wrapping_(mul|add|sub)$", callee)
        if m and m.group(1) in INT_BITS:
            a, b = [self.operand(p, x) for x in args]
            if a.term is None or b.term is None:
                return self.fresh(dst_ty, "call")
            return Val("(%s %s %s)" % ({"mul": "bvmul", "add": "bvadd", "sub": "bvsub"}[m.group(2)],
                                       a.term, b.term), m.group(1))
        if re.search(r"intrinsics::(un)?likely$", callee) and len(args) == 1:
            return self.operand(p, args[0])
        m = re.match(r"<(u\d+) as TryFrom<(usize|u\d+)>>::try_from$", callee)
        if m and len(args) == 1:
            a = self.operand(p, args[0])
            if a.term is not None and a.ty in INT_BITS:
                return Val(named={"tryfrom": a, "to": m.group(1)})
        if re.match(r"Result::<u\d+, TryFromIntError>::unwrap_or$", callee) and len(args) == 2:
            r, d = self.operand(p, args[0]), self.operand(p, args[1], dst_ty)
            if r.named and "tryfrom" in r.named and d.term is not None:
                src, to = r.named["tryfrom"], r.named["to"]
                sb, tb = INT_BITS[src.ty], INT_BITS[to]
                if tb >= sb:
                    return Val(int_cast(src.term, src.ty, to), to)
                fits = "(bvule %s %s)" % (src.term, bv((1 << tb) - 1, sb))
                return Val("(ite %s %s %s)" % (fits, int_cast(src.term, src.ty, to), d.term), to)
        m = re.match(r"<\[u8(?:; \d+)?\] as Index(Mut)?<(?:std::ops::)?(Range|RangeTo|RangeFrom)<usize>>>::"
                     r"index(_mut)?$", callee)
        if m and len(args) == 2:
            a, r = self.operand(p, args[0]), self.operand(p, args[1])
            if a.ty == "slice" and r.named:
                n = a.term
                z = bv(0, 64)
                st = r.named["start"].term if "start" in r.named else z
                en = r.named["end"].term if "end" in r.named else n
                if st is not None and en is not None:
                    good = "(and (bvule %s %s) (bvule %s %s))" % (st, en, en, n)
                    p.obligs.append(("slice index %s out of range" % m.group(2), good, list(p.cond)))
                    p.cond.append(good)
                    return Val("(bvsub %s %s)" % (en, st), "slice")
        if re.match(r"core::slice::<impl \[u8\]>::copy_from_slice$", callee) and len(args) == 2:
            a, b = self.operand(p, args[0]), self.operand(p, args[1])
            if a.ty == "slice" and b.ty == "slice":
                good = "(= %s %s)" % (a.term, b.term)
                p.obligs.append(("copy_from_slice: source and destination lengths differ", good,
                                 list(p.cond)))
                p.cond.append(good)
                return Val(opaque=True)
        # an unmodelled callee may write through every `&mut` it receives: forget what is tracked
        # behind a reference local that is passed on
        for a in args:
            mm = re.match(r"(?:copy|move) (_\d+)$", a.strip())
            if mm:
                for key in [k for k in p.mem if k.startswith("(*%s)." % mm.group(1))]:
                    self.havocs.append("call may write " + key)
                    del p.mem[key]
                    p.escaped.add(key)
        for pat, name in self.named_calls:
            if re.search(pat, callee + "(" + ", ".join(args) + ")"):
                self.decls[name] = sort_of(dst_ty) or "Bool"
                return Val(name, dst_ty)
        self.havocs.append("call " + callee[:80])
        return self.fresh(dst_ty or "?", "ret")

    def run(self, start, max_blocks=400):
        work = [(start, Path())]
        steps = 0
        while work:
            bb, p = work.pop()
            while True:
                steps += 1
                if steps > max_blocks:
                    raise Unsupported("slice too long (loop?)")
                if bb not in self.fn.blocks:
                    raise Unsupported("no block " + bb)
                p.trace.append(bb)
                nxt = self.block(p, bb, work)
                if nxt is None:
                    break
                bb = nxt
        return self.paths_done

    def block(self, p, bb, work):
        stmts = self.fn.blocks[bb]
        for s in stmts[:-1]:
            self.stmt(p, s)
            if "stored" in p.marks:
                self.paths_done.append(p)
                return None
        t = stmts[-1]
        if t == "return;":
            self.paths_ret.append(p)
        if t in ("return;", "unreachable;", "resume;") or t.startswith("drop("):
            if t.startswith("drop("):
                m = re.search(r"return: (bb\d+)", t)
                if m:
                    return m.group(1)
            self.paths_dead += 1
            return None
        m = re.match(r"goto -> (bb\d+);$", t)
        if m:
            return m.group(1)
        m = re.match(r"switchInt\((.+)\) -> \[(.+)\];$", t)
        if m:
            d = self.operand(p, m.group(1))
            if d.term is None:
                raise Unsupported("switch on opaque value: " + t)
            arms, other, conds = [], None, []
            for a in split_top(m.group(2)):
                k, tgt = [x.strip() for x in a.split(":")]
                if k == "otherwise":
                    other = tgt
                else:
                    kv = int(k)
                    if d.ty == "bool":
                        c = d.term if kv else "(not %s)" % d.term
                    else:
                        c = "(= %s %s)" % (d.term, bv(kv, INT_BITS[d.ty]))
                    arms.append((c, tgt))
                    conds.append(c)
            if other:
                arms.append(("(not (or false %s))" % " ".join(conds), other))
            for c, tgt in arms[1:]:
                q = p.clone()
                q.cond.append(c)
                work.append((tgt, q))
            p.cond.append(arms[0][0])
            return arms[0][1]
        m = re.match(r"assert\((!?)(.+?), \"(.*?)\".*\) -> \[success: (bb\d+)", t)
        if m:
            c = self.operand(p, m.group(2))
            if c.term is None:
                raise Unsupported("assert on opaque value")
            good = "(not %s)" % c.term if m.group(1) else c.term
            p.obligs.append((m.group(3), good, list(p.cond)))
            p.cond.append(good)
            return m.group(4)
        m = re.match(r"(.+?) = (.+?)\((.*)\) -> \[return: (bb\d+)", t)
        if m:
            place, callee, args, ret = m.group(1), m.group(2).strip(), split_top(m.group(3)), m.group(4)
            if self.stop_call and re.search(self.stop_call, callee):
                p.marks["stop"] = [self.operand(p, a) for a in args]
            if self.end_call and re.search(self.end_call, callee):
                p.marks["end"] = [self.operand(p, a) for a in args]
                self.paths_done.append(p)
                return None
            dm = re.match(r"(_\d+)$", place)
            dst_ty = self.fn.types.get(dm.group(1)) if dm else None
            self.assign(p, place, self.call(p, callee, args, dst_ty))
            return ret
        raise Unsupported("terminator: " + t[:100])

    def stmt(self, p, s):
        if re.match(r"(StorageLive|StorageDead|nop|FakeRead|PlaceMention|Retag|Coverage|"
                    r"AscribeUserType|ConstEvalCounter)\b", s) or s.startswith("//"):
            return
        m = re.match(r"(.+?) = (.+);$", s)
        if not m:
            raise Unsupported("statement: " + s[:100])
        place, rv = m.group(1).strip(), m.group(2)
        dm = re.match(r"(_\d+)$", place)
        dst_ty = self.fn.types.get(dm.group(1)) if dm else None
        if not dm:
            fm = re.match(r"\(_\d+\.\d+: ([^)]+)\)$", place)
            dst_ty = fm.group(1).strip() if fm else None
        self.assign(p, place, self.rvalue(p, rv, dst_ty))


CMP = {"Eq", "Ne", "Lt", "Le", "Gt", "Ge"}
BINOPS = CMP | {"Add", "Sub", "Mul", "Div", "Rem", "BitAnd", "BitOr", "BitXor", "Shl", "Shr",
                "AddWithOverflow", "SubWithOverflow", "MulWithOverflow", "AddUnchecked",
                "SubUnchecked", "MulUnchecked", "ShlUnchecked", "ShrUnchecked"}


# ------------------------------------------------------------------ reference formulas (by hand)

def ref_int(q, q3):
    """((q * 100) / q3) mod 16 on unsigned 64-bit values; the result is the 4-bit field."""
    prod = "(bvmul ((_ zero_extend 32) %s) (_ bv100 64))" % q
    quo = "(bvudiv %s ((_ zero_extend 32) %s))" % (prod, q3)
    return "((_ zero_extend 4) ((_ extract 3 0) %s))" % quo


def ref_f32(q, q3):
    """legacy TLSH: unsigned 32-bit product (wrapping), single-precision division, truncation
    toward zero to unsigned, mod 16"""
    num = "((_ to_fp_unsigned 8 24) RNE (bvmul %s (_ bv100 32)))" % q
    den = "((_ to_fp_unsigned 8 24) RNE %s)" % q3
    t = int_of_fp("(fp.div RNE %s %s)" % (num, den), "f32", "u32")
    return "((_ zero_extend 4) ((_ extract 3 0) %s))" % t


def ref_f64(q, q3):
    """NOT the reference: double precision; used only as a discrimination witness"""
    num = "((_ to_fp_unsigned 11 53) RNE (bvmul %s (_ bv100 32)))" % q
    den = "((_ to_fp_unsigned 11 53) RNE %s)" % q3
    t = int_of_fp("(fp.div RNE %s %s)" % (num, den), "f64", "u32")
    return "((_ zero_extend 4) ((_ extract 3 0) %s))" % t


# ------------------------------------------------------------------ solvers

SOLVERS = [("z3", ["z3", "-in", "-T:%d"]),
           ("cvc5", ["cvc5", "--lang", "smt2", "--tlimit=%d000"]),
           # integer encoding that keeps the mod-2^k semantics: decides divider-vs-divider
           # equivalences (e.g. a u128 re-write of the u64 formula) that bit-blasting does not
           ("cvc5-int", ["cvc5", "--lang", "smt2", "--solve-bv-as-int=sum", "--tlimit=%d000"])]


def classify_answer(txt):
    first = txt.strip().splitlines()[0].strip() if txt.strip() else "unknown"
    if "(error" in txt:
        # an `(error` line = inconclusive, even next to an answer (an assertion may have been
        # dropped); a model request is only ever sent after `sat`
        return "error"
    if first in ("sat", "unsat"):
        return first
    return "unknown"


def solve(script, timeout):
    """All solver configurations run concurrently on the same script; the call returns when two
    of them have given the same definite answer, or all have finished / timed out.
    returns {solver: (answer, output, seconds)}; answer in sat/unsat/unknown/error"""
    procs = {}
    t0 = time.time()
    for name, cmd in SOLVERS:
        c = [x % timeout if "%d" in x else x for x in cmd]
        try:
            p = subprocess.Popen(c, stdin=subprocess.PIPE, stdout=subprocess.PIPE,
                                 stderr=subprocess.STDOUT, text=True)
            p.stdin.write(script)
            p.stdin.close()
            procs[name] = p
        except OSError as e:
            procs[name] = None
    out = {}
    while True:
        for name, p in procs.items():
            if name in out:
                continue
            if p is None:
                out[name] = ("error", "cannot start", 0.0)
            elif p.poll() is not None:
                txt = p.stdout.read()
                out[name] = (classify_answer(txt), txt, time.time() - t0)
        definite = [v[0] for v in out.values() if v[0] in ("sat", "unsat")]
        done = len(out) == len(procs)
        agreed = len(definite) >= 2 and len(set(definite)) == 1
        if done or agreed or time.time() - t0 > timeout + 15:
            break
        time.sleep(0.01)
    for name, p in procs.items():
        if name not in out:
            try:
                p.kill()
                p.wait()
            except OSError:
                pass
            out[name] = ("unknown", "not finished (stopped after two solvers agreed or at the "
                         "time limit)", time.time() - t0)
    return out


def combine(answers):
    """one verdict from the per-solver answers: a definite answer given by at least one solver
    and contradicted by none; `error` from the two primary solvers poisons the query"""
    definite = {a for a in answers.values() if a in ("sat", "unsat")}
    if answers.get("z3") == "error" or answers.get("cvc5") == "error":
        return "inconclusive"
    if len(definite) == 1:
        return definite.pop()
    return "inconclusive"


def parse_model(txt):
    vals = {}
    for m in re.finditer(r"\((\w+) (#x[0-9a-fA-F]+|#b[01]+|true|false|\(_ bv(\d+) \d+\))\)", txt):
        v = m.group(2)
        if v.startswith("#x"):
            vals[m.group(1)] = int(v[2:], 16)
        elif v.startswith("#b"):
            vals[m.group(1)] = int(v[2:], 2)
        elif v in ("true", "false"):
            vals[m.group(1)] = v == "true"
        else:
            vals[m.group(1)] = int(m.group(3))
    return vals


# ------------------------------------------------------------------ the check

FN_PRED = lambda h: "::finalize_with_options(" in h and "_1: &generate::inner::Generator<" in h
PURE_INT = "opt_pure_int"


def encode(mir):
    fns = find_fn(mir, FN_PRED)
    if len(fns) != 1:
        raise Unsupported("expected one inner finalize_with_options in the MIR, found %d" % len(fns))
    fn = fns[0]
    # slice start: return block of the LAST select_nth_unstable call
    start = None
    for bb, stmts in fn.blocks.items():
        t = stmts[-1] if stmts else ""
        if "select_nth_unstable(" in t:
            m = re.search(r"return: (bb\d+)", t)
            if m and (start is None or int(bb[2:]) > start[0]):
                start = (int(bb[2:]), m.group(1))
    if start is None:
        raise Unsupported("no select_nth_unstable call in finalize_with_options")
    ex = Exec(fn, named_calls=[(r"contains\(.*PURE_INTEGER_QRATIO_COMPUTATION", PURE_INT)],
              stop_call=r"FuzzyHashQRatios::new$", end_call=r"aggregate_buckets$")
    ex.decls[PURE_INT] = "Bool"
    paths = ex.run(start[1])
    return fn, ex, paths, start[1]


def decls_text(ex):
    return "".join("(declare-const %s %s)\n" % (n, s) for n, s in sorted(ex.decls.items()))


def run_check(crate_dir, target_dir, logdir, timeout=120, log=print):
    """returns dict(verdict=pass|fail|undecided, reason, queries=[...], cex=..., ...)"""
    t0 = time.time()
    res = {"verdict": "undecided", "reason": "", "queries": [], "solver_s": 0.0,
           "functions": "generate::inner::Generator::finalize_with_options (MIR slice: return of "
                        "the last select_nth_unstable call .. call of aggregate_buckets), generic "
                        "MIR shared by all five variants",
           "bound": "loop-free slice, every path; ALL 32-bit quartile values q1<=q2<=q3 (incl. "
                    ">=2^24, >=2^31, q3==0 with the dummy quartiles) and both Q-ratio modes; "
                    "bit-vector + IEEE-754 Float32 semantics; no unrolling needed",
           "assumptions": "q1<=q2<=q3 for the three order statistics (contract of "
                          "select_nth_unstable, modelled honestly in the Kani lemma f_short_main); "
                          "statements outside the translator's fragment are havocked "
                          "(over-approximation)"}
    try:
        mir = dump_mir(crate_dir, target_dir, os.path.join(logdir, "mir-dump.log"))
        with open(os.path.join(logdir, "mir.txt"), "w") as f:
            f.write(mir)
        fn, ex, paths, start = encode(mir)
    except Unsupported as e:
        res["reason"] = "MIR outside the translator's fragment: %s" % e
        return res
    except subprocess.TimeoutExpired:
        res["reason"] = "MIR dump timed out"
        return res
    res["mir_dump_s"] = round(time.time() - t0, 1)
    res["slice_start"] = start
    res["paths"] = len(paths)
    res["havocked"] = sorted(set(ex.havocs))
    if not paths:
        res["reason"] = "no path of the slice reaches aggregate_buckets"
        return res
    # the three order statistics = what aggregate_buckets receives on a path without the dummy
    roles = None
    for p in paths:
        a = p.marks["end"][-3:]
        if len(a) == 3 and all(v.term in ex.decls and v.ty == "u32" for v in a) and \
                len({v.term for v in a}) == 3:
            roles = [v.term for v in a]
            break
    if roles is None:
        res["reason"] = "cannot identify the three quartile locals (no path hands three distinct " \
                        "inputs to aggregate_buckets)"
        return res
    res["quartile_locals"] = roles
    _LAST.update({"ex": ex, "paths": paths, "roles": roles})
    order = "(and (bvule %s %s) (bvule %s %s))" % (roles[0], roles[1], roles[1], roles[2])
    head = "(set-logic ALL)\n(set-option :produce-models true)\n" + decls_text(ex)
    getv = "(get-value (%s))\n" % " ".join(sorted(n for n in ex.decls))
    verdicts = []
    cex = None

    def ask(kind, pidx, what, assertions, expect):
        nonlocal cex
        script = head + "".join("(assert %s)\n" % a for a in assertions) + "(check-sat)\n"
        script_m = script
        r = solve(script, timeout)
        if expect == "unsat" and combine({k: v[0] for k, v in r.items()}) == "sat":
            # second pass only to read the model (get-value after unsat would be an error line)
            r2 = solve(script + getv, timeout)
            for k in r:
                if r2[k][0] == "sat":
                    r[k] = r2[k]
        answers = {k: v[0] for k, v in r.items()}
        secs = max(v[2] for v in r.values())
        res["solver_s"] += secs
        got = combine(answers)
        if got == "inconclusive":
            v = "inconclusive"
        elif expect is None or got == expect:
            v = "ok"
        elif expect == "unsat":
            v = "refuted"
            if cex is None:
                txt = max((x[1] for x in r.values() if x[0] == "sat"), key=len)
                cex = {"query": "%s path %d: %s" % (kind, pidx, what), "model": parse_model(txt)}
        else:
            v = "vacuous"
        res["queries"].append({"kind": kind, "path": pidx, "what": what, "expect": expect,
                               "answers": answers, "seconds": round(secs, 2), "verdict": v})
        verdicts.append(v)
        with open(os.path.join(logdir, "mirq-%02d.smt2" % len(res["queries"])), "w") as f:
            f.write("; %s path %d: %s (expect %s) -> %s\n" % (kind, pidx, what, expect, answers))
            f.write(script_m)
        return v

    seen_modes = set()
    for i, p in enumerate(paths):
        if cex is not None:
            break     # one reproduced counterexample is enough; the remaining queries are skipped
        pc = p.cond + [order]
        stop = p.marks.get("stop")
        end = p.marks["end"]
        if stop is None or len(stop) != 2 or any(v.term is None for v in stop):
            res["reason"] = "path %d reaches aggregate_buckets without FuzzyHashQRatios::new(a, b)" % i
            return res
        qs = end[-3:]
        if len(qs) != 3 or any(v.term is None or v.ty != "u32" for v in qs):
            res["reason"] = "path %d: aggregate_buckets does not receive three u32 quartiles" % i
            return res
        q1, q2, q3 = [v.term for v in qs]
        outs = []
        for v in stop:
            if v.ty != "u8":
                res["reason"] = "path %d: Q ratio argument is %s, not u8" % (i, v.ty)
                return res
            outs.append(v.term)
        ask("witness", i, "path condition satisfiable (reachability witness)", pc, "sat")
        for mode, flag in (("int", PURE_INT), ("f32", "(not %s)" % PURE_INT)):
            if ask("mode", i, "is the path taken in %s mode?" % mode, pc + [flag], None) == "ok" \
                    and combine(res["queries"][-1]["answers"]) == "sat":
                seen_modes.add(mode)
        for msg, good, cond_at in p.obligs:
            ask("safety", i, msg[:70], cond_at + [order, "(not %s)" % good], "unsat")
        spec1 = "(ite %s %s %s)" % (PURE_INT, ref_int(q1, q3), ref_f32(q1, q3))
        spec2 = "(ite %s %s %s)" % (PURE_INT, ref_int(q2, q3), ref_f32(q2, q3))
        ask("equiv", i, "q1 ratio == reference(q1,q3)", pc + ["(distinct %s %s)" % (outs[0], spec1)], "unsat")
        ask("equiv", i, "q2 ratio == reference(q2,q3)", pc + ["(distinct %s %s)" % (outs[1], spec2)], "unsat")
    # discrimination witnesses: the reference formulas are distinguishable from near misses.
    # Asked first at a pinned point (found by the solvers once; evaluation only, so that a loaded
    # machine cannot turn this guard into a time-out), then, if that is not `sat`, freely.
    ex2 = "(declare-const a (_ BitVec 32))\n(declare-const b (_ BitVec 32))\n"
    for what, l, r_, pin in (
            ("int and f32 references differ somewhere", ref_int("a", "b"), ref_f32("a", "b"),
             (2415919104, 3221225472)),
            ("f32 and f64 formulas differ somewhere", ref_f32("a", "b"), ref_f64("a", "b"),
             (2147483647, 2147483647))):
        body = "(assert (distinct b (_ bv0 32)))\n(assert (bvule a b))\n" \
               "(assert (distinct %s %s))\n" % (l, r_)
        pinned = "(assert (= a %s))\n(assert (= b %s))\n" % (bv(pin[0], 32), bv(pin[1], 32))
        answers, secs = {}, 0.0
        for extra in (pinned, ""):
            r = solve("(set-logic ALL)\n" + ex2 + extra + body + "(check-sat)\n", timeout)
            answers = {k: v[0] for k, v in r.items()}
            secs += max(v[2] for v in r.values())
            if combine(answers) == "sat":
                break
        res["solver_s"] += secs
        v = "ok" if combine(answers) == "sat" else "inconclusive"
        res["queries"].append({"kind": "discrimination", "path": -1, "what": what, "expect": "sat",
                               "answers": answers, "seconds": round(secs, 2), "verdict": v})
        verdicts.append(v)
    res["solver_s"] = round(res["solver_s"], 2)
    res["wall_s"] = round(time.time() - t0, 1)
    if "refuted" in verdicts:
        res["verdict"] = "fail"
        res["cex"] = cex
        res["reason"] = "solver found quartiles for which the MIR disagrees with the reference: %s" % cex
    elif seen_modes != {"int", "f32"}:
        res["reason"] = "not both Q-ratio modes are reachable in the slice (%s)" % sorted(seen_modes)
    elif any(v != "ok" for v in verdicts):
        bad = [q for q in res["queries"] if q["verdict"] != "ok"][:3]
        res["reason"] = "queries not decided as expected: %s" % bad
    else:
        res["verdict"] = "pass"
    return res


_LAST = {}

# ------------------------------------------------------------------ named constants from the MIR

def make_const_resolver(mir, obligs_out):
    """`const <path>::NAME` -> closed SMT term, by executing the constant's own MIR body (found by
    its last path segment; all items of that name must evaluate to the same term)"""
    cache = {}

    def resolve(c):
        name = c.rsplit("::", 1)[-1].strip()
        if not re.match(r"[A-Z_][A-Z0-9_]*$", name):
            return None
        if name in cache:
            return cache[name]
        cache[name] = None
        vals = []
        for m in re.finditer(r"^const ([^\n]*?)::%s: (\w+) = (const [^;\n]+;|\{)" % name, mir, re.M):
            if m.group(3).startswith("const"):
                mm = re.match(r"(-?\d+)_(\w+)$", m.group(3)[6:-1].strip())
                if not mm or mm.group(2) not in INT_BITS:
                    return None
                vals.append(Val(bv(int(mm.group(1)), INT_BITS[mm.group(2)]), mm.group(2)))
                continue
            end = mir.index("\n}\n", m.end())
            fn = MirFn("const()", mir[m.end():end].splitlines())
            ex = Exec(fn, [], None, None, consts=resolve)
            try:
                ex.run("bb0")
            except Unsupported:
                return None
            if len(ex.paths_ret) != 1 or ex.decls:
                return None
            v = ex.paths_ret[0].env.get("_0")
            if v is None or v.term is None:
                return None
            vals.append(v)
            obligs_out.extend(("const %s: %s" % (name, msg), good, cond)
                              for msg, good, cond in ex.paths_ret[0].obligs)
        if not vals or len({(v.term, v.ty) for v in vals}) != 1:
            return None
        cache[name] = vals[0]
        return vals[0]

    return resolve


# ------------------------------------------------------------------ C11: length arithmetic of update

MAXL_SPEC = (1 << 32) - 4      # MAX_LEN = u32::MAX - 3 (property C11, mechanism)
N_REPLAY = 1 << 33             # a counterexample with a longer slice cannot be replayed here


def encode_update(mir):
    obl = []
    consts = make_const_resolver(mir, obl)
    # which fields are `len` and `tail_len`: processed_len() is `len.checked_add(tail_len)`
    pl = find_fn(mir, lambda h: "::processed_len(" in h and "_1: &generate::inner::Generator<" in h)
    if len(pl) != 1:
        raise Unsupported("expected one inner processed_len in the MIR, found %d" % len(pl))
    txt = "\n".join("\n".join(b) for b in pl[0].blocks.values())
    m = re.search(r"checked_add\((?:move|copy) (_\d+), (?:move|copy) (_\d+)\)", txt)
    if not m:
        raise Unsupported("processed_len is not a checked_add of two fields")
    idx = []
    for loc in m.groups():
        mm = re.search(r"%s = copy \(\(\*_1\)\.(\d+): u32\);" % re.escape(loc), txt)
        if not mm:
            raise Unsupported("processed_len operand is not a u32 field of self")
        idx.append(int(mm.group(1)))
    li, ti = idx
    fns = find_fn(mir, lambda h: re.match(r"fn generate::inner::<impl at [^>]*>::update\(", h)
                  and "_1: &mut generate::inner::Generator<" in h)
    if len(fns) != 1:
        raise Unsupported("expected one inner update in the MIR, found %d" % len(fns))
    fn = fns[0]
    ex = Exec(fn, [], None, None, consts=consts,
              stop_store=r"\(\(\*_1\)\.%d: u32\)" % li)
    ex.run("bb0")
    data_locals = [l for n, l in fn.debug if n == "data"]
    return fn, ex, li, ti, data_locals, obl


def run_check_len(crate_dir, target_dir, logdir, timeout=120, mir=None):
    t0 = time.time()
    res = {"verdict": "undecided", "reason": "", "queries": [], "solver_s": 0.0,
           "functions": "generate::inner::Generator::update (MIR from entry to the store of the new "
                        "`len`: tail fill, saturation test, u32::try_from(data.len()).unwrap_or, "
                        "truncation of the crossing piece, `len += data_len`), the constants "
                        "MAX_LEN/TAIL_SIZE/WINDOW_SIZE (their own MIR bodies), processed_len (field "
                        "identification); generic MIR shared by all five variants",
           "bound": "loop-free prefix, every path; ALL states len <= 2^32-4, tail_len <= 4 and ALL "
                    "slice lengths 0..2^63-1 (incl. >= 2^32: the unwrap_or arm); one inductive step "
                    "of `len + tail_len == min(bytes fed, 2^32)`; the per-byte loop after the "
                    "store is outside (Kani lemmas S, lenb_*)",
           "assumptions": "representation invariant as precondition: tail_len <= 4, len <= 2^32-4, "
                          "tail_len < 4 => len == 0 (re-established by every path); slice length "
                          "<= isize::MAX; a callee can only write through the `&mut` it receives "
                          "(safe Rust); statements outside the translator's fragment are havocked"}
    try:
        if mir is None:
            mir = dump_mir(crate_dir, target_dir, os.path.join(logdir, "mir-dump-len.log"))
        fn, ex, li, ti, data_locals, const_obl = encode_update(mir)
    except Unsupported as e:
        res["reason"] = "MIR outside the translator's fragment: %s" % e
        return res
    kl, kt = "(*_1).%d" % li, "(*_1).%d" % ti
    L0, T0, N = "m_1_%d" % li, "m_1_%d" % ti, "len_in_2"
    for nm, srt in ((L0, "(_ BitVec 32)"), (T0, "(_ BitVec 32)"), (N, "(_ BitVec 64)")):
        ex.decls.setdefault(nm, srt)
    res["paths"] = len(ex.paths_done) + len(ex.paths_ret)
    res["havocked"] = sorted(set(ex.havocs))
    res["fields"] = {"len": li, "tail_len": ti}
    if not ex.paths_done or not ex.paths_ret:
        res["reason"] = "the prefix of update has no path storing `len` or no early return"
        return res
    pre = ["(bvule %s %s)" % (T0, bv(4, 32)), "(bvule %s %s)" % (L0, bv(MAXL_SPEC, 32)),
           "(=> (bvult %s %s) (= %s %s))" % (T0, bv(4, 32), L0, bv(0, 32)),
           "(bvule %s %s)" % (N, bv((1 << 63) - 1, 64))]
    head = "(set-logic ALL)\n(set-option :produce-models true)\n" + decls_text(ex)
    getv = "(get-value (%s %s %s))\n" % (L0, T0, N)
    verdicts = []
    cex = [None]

    def z(t, bits):
        return "((_ zero_extend %d) %s)" % (72 - bits, t)

    def ask(kind, pidx, what, assertions, expect, replayable_split=False):
        variants = [("", assertions)]
        if replayable_split:
            # a counterexample that is cheap to replay is looked for first: short slice, or a state
            # next to the saturation mark (the real code then hashes few bytes)
            cheap = "(or (bvule %s %s) (bvuge %s %s))" % (N, bv(1 << 20, 64), L0,
                                                         bv(MAXL_SPEC - (1 << 20), 32))
            variants = [(" [cheap replay]", assertions + ["(bvule %s %s)" % (N, bv(N_REPLAY, 64)), cheap]),
                        (" [slice <= 8 GiB]", assertions + ["(bvule %s %s)" % (N, bv(N_REPLAY, 64)),
                                                            "(not %s)" % cheap]),
                        (" [slice > 8 GiB]", assertions + ["(bvugt %s %s)" % (N, bv(N_REPLAY, 64))])]
        worst = "ok"
        for tag, asr in variants:
            script = head + "".join("(assert %s)\n" % a for a in asr) + "(check-sat)\n"
            r = solve(script, timeout)
            got = combine({k: v[0] for k, v in r.items()})
            if expect == "unsat" and got == "sat":
                r2 = solve(script + getv, timeout)
                for k in r:
                    if r2[k][0] == "sat":
                        r[k] = r2[k]
            answers = {k: v[0] for k, v in r.items()}
            secs = max(v[2] for v in r.values())
            res["solver_s"] += secs
            if got == "inconclusive":
                v = "inconclusive"
            elif expect is None or got == expect:
                v = "ok"
            elif expect == "unsat":
                if tag == " [slice > 8 GiB]":
                    v = "refuted-unreplayable"
                else:
                    v = "refuted"
                    if cex[0] is None:
                        txt = max((x[1] for x in r.values() if x[0] == "sat"), key=len)
                        cex[0] = {"query": "%s path %d: %s" % (kind, pidx, what),
                                  "model": parse_model(txt)}
            else:
                v = "vacuous"
            res["queries"].append({"kind": kind, "path": pidx, "what": what + tag, "expect": expect,
                                   "answers": answers, "seconds": round(secs, 2), "verdict": v})
            with open(os.path.join(logdir, "mirlen-%03d.smt2" % len(res["queries"])), "w") as f:
                f.write("; %s path %d: %s%s (expect %s) -> %s\n" % (kind, pidx, what, tag, expect, answers))
                f.write(script)
            verdicts.append(v)
            if v != "ok":
                worst = v
        return worst

    for msg, good, cond in const_obl:
        ask("safety", -1, msg[:70], cond + ["(not %s)" % good], "unsat")
    allp = [("store", p) for p in ex.paths_done] + [("return", p) for p in ex.paths_ret]
    feasible = {"store": 0, "return": 0}
    tot0 = "(bvadd %s %s)" % (z(L0, 32), z(T0, 32))
    totn = "(bvadd %s %s)" % (tot0, z(N, 64))
    cap = bv(1 << 32, 72)
    expected = "(ite (bvule %s %s) %s %s)" % (totn, cap, totn, cap)
    for i, (kind, p) in enumerate(allp):
        if cex[0] is not None:
            break
        if kl in p.escaped or kt in p.escaped:
            res["reason"] = "path %d: `len`/`tail_len` escape through a mutable borrow" % i
            return res
        L1 = p.mem[kl].term if kl in p.mem else L0
        T1 = p.mem[kt].term if kt in p.mem else T0
        pc = pre + p.cond
        w = ask("witness", i, "is the %s path feasible under the invariant?" % kind, pc, None)
        if w != "ok":
            continue
        if combine(res["queries"][-1]["answers"]) != "sat":
            continue        # infeasible under the invariant: nothing to show
        feasible[kind] += 1
        for msg, good, cond_at in p.obligs:
            ask("safety", i, msg[:70], pre + cond_at + ["(not %s)" % good], "unsat", True)
        tot1 = "(bvadd %s %s)" % (z(L1, 32), z(T1, 32))
        posts = [("len + tail_len == min(fed before + slice length, 2^32)", "(= %s %s)" % (tot1, expected)),
                 ("tail_len' <= 4 and len' <= 2^32-4",
                  "(and (bvule %s %s) (bvule %s %s))" % (T1, bv(4, 32), L1, bv(MAXL_SPEC, 32))),
                 ("tail_len' < 4 => len' == len", "(=> (bvult %s %s) (= %s %s))" % (T1, bv(4, 32), L1, L0))]
        if kind == "return":
            posts.append(("early return leaves len unchanged", "(= %s %s)" % (L1, L0)))
        else:
            posts.append(("the tail is full when len is stored", "(= %s %s)" % (T1, bv(4, 32))))
            dl = [p.env[l] for l in data_locals if l in p.env and p.env[l].ty == "slice"]
            if dl:
                posts.append(("remaining slice length == len' - len (bytes handed to the loop)",
                              "(= %s ((_ zero_extend 32) (bvsub %s %s)))" % (dl[-1].term, L1, L0)))
            else:
                res["reason"] = "path %d: cannot find the `data` slice at the store of len" % i
                return res
        for what, post in posts:
            ask("post", i, what, pc + ["(not %s)" % post], "unsat", True)
    # coverage witnesses over all paths: the crossing piece and the >= 4 GiB slice are reachable
    anyp = "(or false %s)" % " ".join("(and true %s)" % " ".join(p.cond) for _, p in allp)
    if cex[0] is None:
        ask("coverage", -1, "some path takes a piece that crosses the 2^32-4 mark",
            pre + [anyp, "(bvugt %s %s)" % (totn, cap), "(bvult %s %s)" % (L0, bv(MAXL_SPEC, 32))], "sat")
        ask("coverage", -1, "some path takes a slice of 2^32 bytes or more",
            pre + [anyp, "(bvuge %s %s)" % (N, bv(1 << 32, 64))], "sat")
        ask("coverage", -1, "every state of the invariant and every slice length is accepted by some path",
            pre + ["(not %s)" % anyp], "unsat")
    res["solver_s"] = round(res["solver_s"], 2)
    res["wall_s"] = round(time.time() - t0, 1)
    res["feasible_paths"] = feasible
    _LAST.update({"len": {"ex": ex, "allp": allp, "names": (L0, T0, N), "keys": (kl, kt)}})
    if "refuted" in verdicts:
        res["verdict"] = "fail"
        res["cex"] = cex[0]
        res["reason"] = "solver found a state and a slice length for which the MIR breaks the " \
                        "length invariant: %s" % cex[0]
    elif not feasible["store"] or not feasible["return"]:
        res["reason"] = "no feasible storing / returning path (%s)" % feasible
    elif any(v != "ok" for v in verdicts):
        res["reason"] = "queries not decided as expected: %s" % \
            [q for q in res["queries"] if q["verdict"] != "ok"][:3]
    else:
        res["verdict"] = "pass"
    return res


def replay_values_len(res):
    """(len, tail_len, slice length) of the counterexample"""
    m = res["cex"]["model"]
    f = res["fields"]
    return m.get("m_1_%d" % f["len"], 0), m.get("m_1_%d" % f["tail_len"], 0), m.get("len_in_2", 0)


def validate_len_against(table, logdir, timeout=60):
    """table: (L, T, N) -> (L', T') from the real code; the encoding must produce the same"""
    d = _LAST["len"]
    ex, allp, (L0, T0, N), (kl, kt) = d["ex"], d["allp"], d["names"], d["keys"]
    head = "(set-logic ALL)\n(set-option :produce-models true)\n" + decls_text(ex)
    bad = []
    for i, (_k, p) in enumerate(allp):
        L1 = p.mem[kl].term if kl in p.mem else L0
        T1 = p.mem[kt].term if kt in p.mem else T0
        alts = []
        for (l, t, n), (l1, t1) in sorted(table.items()):
            alts.append("(and (= %s %s) (= %s %s) (= %s %s) (or (distinct %s %s) (distinct %s %s)))" % (
                L0, bv(l, 32), T0, bv(t, 32), N, bv(n, 64), L1, bv(l1, 32), T1, bv(t1, 32)))
        script = head + "".join("(assert %s)\n" % c for c in p.cond) + \
            "(assert (or false %s))\n(check-sat)\n" % " ".join(alts)
        r = solve(script, timeout)
        got = combine({k: v[0] for k, v in r.items()})
        if got == "sat":
            r2 = solve(script + "(get-value (%s %s %s))\n" % (L0, T0, N), timeout)
            txt = max((x[1] for x in r2.values() if x[0] == "sat"), key=len, default="")
            bad.append("path %d: encoding differs from the real code at %s" % (i, parse_model(txt)))
        elif got != "unsat":
            bad.append("path %d: validation query inconclusive" % i)
    anyp = "(or false %s)" % " ".join("(and true %s)" % " ".join(p.cond) for _, p in allp)
    for (l, t, n) in sorted(table):
        script = head + "(assert (= %s %s))\n(assert (= %s %s))\n(assert (= %s %s))\n(assert %s)\n(check-sat)\n" % (
            L0, bv(l, 32), T0, bv(t, 32), N, bv(n, 64), anyp)
        r = solve(script, timeout)
        if combine({k: v[0] for k, v in r.items()}) != "sat":
            bad.append("no path of the encoding accepts %s" % ((l, t, n),))
    return bad



def validate_against(table, logdir, timeout=60):
    """Translator validation: `table` maps (q1, q2, q3, pure_int) to the value the REAL code
    produced (q2ratio << 4 | q1ratio).  The MIR-derived terms must take exactly these values:
    for every path, `path /\\ inputs = triple_k /\\ outputs != real_k` is unsat for all k, and
    every triple is accepted by some path.  Returns the list of mismatches (empty = validated)."""
    ex, paths, roles = _LAST["ex"], _LAST["paths"], _LAST["roles"]
    head = "(set-logic ALL)\n(set-option :produce-models true)\n" + decls_text(ex)
    bad = []

    def fix(k):
        q1, q2, q3, pint = k
        return "(and (= %s %s) (= %s %s) (= %s %s) (= %s %s))" % (
            roles[0], bv(q1, 32), roles[1], bv(q2, 32), roles[2], bv(q3, 32), PURE_INT,
            "true" if pint else "false")

    for i, p in enumerate(paths):
        o1, o2 = [v.term for v in p.marks["stop"]]
        alts = []
        for k, val in sorted(table.items()):
            alts.append("(and %s (or (distinct %s %s) (distinct %s %s)))" % (
                fix(k), o1, bv(val & 15, 8), o2, bv(val >> 4, 8)))
        script = head + "".join("(assert %s)\n" % c for c in p.cond) + \
            "(assert (or false %s))\n(check-sat)\n" % " ".join(alts)
        r = solve(script, timeout)
        got = combine({k: v[0] for k, v in r.items()})
        if got == "sat":
            r2 = solve(script + "(get-value (%s %s %s %s))\n" % (roles[0], roles[1], roles[2], PURE_INT),
                       timeout)
            txt = max((x[1] for x in r2.values() if x[0] == "sat"), key=len, default="")
            bad.append("path %d: encoding differs from the real code at %s" % (i, parse_model(txt)))
        elif got != "unsat":
            bad.append("path %d: validation query inconclusive %s" % (i, {k: v[0] for k, v in r.items()}))
    for k in sorted(table):
        script = head + "(assert %s)\n(assert (or false %s))\n(check-sat)\n" % (
            fix(k), " ".join("(and true %s)" % " ".join(p.cond) for p in paths))
        r = solve(script, timeout)
        if combine({kk: v[0] for kk, v in r.items()}) != "sat":
            bad.append("no path of the encoding accepts %s" % (k,))
    return bad


def replay_values(res):
    """(q1, q2, q3, pure_int) of the counterexample, for the native replay"""
    m = res["cex"]["model"]
    r = res["quartile_locals"]
    return m.get(r[0], 0), m.get(r[1], 0), m.get(r[2], 0), bool(m.get(PURE_INT, False))


if __name__ == "__main__":
    import json
    import sys
    crate = sys.argv[1]
    ld = sys.argv[2] if len(sys.argv) > 2 else "/var/tmp/mirq-logs"
    os.makedirs(ld, exist_ok=True)
    r = run_check(crate, os.path.join(os.path.dirname(os.path.dirname(os.path.abspath(__file__))),
                                      ".build", "tgt-mir"), ld)
    print(json.dumps(r, indent=1)[:6000])

#!/usr/bin/env python3
"""Writes seeded/<id>/meta.json from agent_meta.txt, confirm.txt and check.txt, and prints the
markdown table used in DESIGN.md section 9."""
import json, os, re, sys
V = os.path.dirname(os.path.dirname(os.path.abspath(__file__)))
NEEDS = {
 "C01": "integer Q-ratio mode + a quartile >= 42,949,673 (>= ~370 MB of input): 32-bit wrap of q*100",
 "C02": "SSE2 body-distance backend (never selected on an AVX2 machine) + 32-byte bodies whose 16-bit lane pair sums to >= 256",
 "C03": "exactly 3 bytes buffered, then a piece of >= 2 bytes whose first byte differs from the last buffered one",
 "C04": "feature opt-low-memory-hex-str-decode-half-table + a header pair <non-hex>'0'",
 "C05": "feature opt-low-memory-hex-str-decode-half-table + a header pair <non-hex>'0'",
 "C06": "3-byte-checksum variants with a non-zero 2nd/3rd checksum byte, then clear_checksum()",
 "C07": "SSE2 body-distance backend + 64-byte bodies with a lane pair summing to >= 256",
 "C08": "3-byte-checksum variants + a checksum byte pair whose XOR is exactly 0x80",
 "C09": "code 0 only (lengths 0 and 1): range() returns the empty range 2..=1",
 "C10": "Conservative mode + allow_small_size_files + 50..127 bytes on a 128/256-bucket variant",
 "C11": ">= 2^32 bytes fed, then finalize (processed_len None mapped to the valid maximum)",
 "C12": "a reader returning a short read (0 < k < 1 MiB) followed by more data",
 "C13": "two arguments equal ignoring ASCII case that do not both parse (fast path skips validation)",
 "C14": "hex-with-prefix form + buffer of N-2 or N-1 bytes",
 "C15": "feature strict-parser + byte parser + 3-byte-checksum variant + length code >= 170",
 "C16": "feature serde + human-readable format + a valid hash string WITHOUT the T1 prefix",
 "C17": "WithVersion prefix + buffer 1-2 bytes short: panic inside hex_simd::encode (default features) / Ok(N) beyond the buffer (own encoders)",
 "C18": "tail full, then update() with a 0-3 byte piece under feature alloc: Vec from concat()",
}
def first_line(txt, key):
    for ln in txt.splitlines():
        if ln.startswith(key):
            return ln[len(key):].strip()
    return ""


rows = []
for pid in sorted(os.listdir(os.path.join(V, "seeded"))):
    d = os.path.join(V, "seeded", pid)
    if not os.path.isdir(d):
        continue
    rd = lambda f: open(os.path.join(d, f)).read() if os.path.exists(os.path.join(d, f)) else ""
    confirm, check, agent = rd("confirm.txt"), rd("check.txt"), rd("agent_meta.txt")
    m = re.search(r"exit=(\d+) wall=(\d+)s", check)
    rc = int(m.group(1)) if m else None
    caught_by = sorted(set(re.findall(r"\[vf\] FAIL \S+\s+(\S+)", check)))
    viol = re.search(r"VIOLATION property=(\S+)", check)
    meta = {
        "property": pid.split("-")[0],
        "patch": "patch.diff",
        "demonstration": "seed_demo.rs",
        "needs_to_manifest": NEEDS.get(pid, "") or first_line(agent, "NEEDS:"),
        "author": "independent sub-agent given only the property text and a scratch worktree",
        "agent_notes": agent.strip(),
        "confirmed": {
            "how": "run/confirm_seeds.sh in a scratch worktree: patch applies, existing suite passes with it, demonstration fails with it and passes without it",
            "log": confirm.strip().splitlines(),
        },
        "check_run": {
            "how": "run/try_seeds.sh: quick check of the property with VERIF_REPO pointing at a scratch worktree with the patch applied",
            "exit": rc, "wall_s": int(m.group(2)) if m else None,
            "failing_harnesses": caught_by,
            "verdict": "caught (VIOLATION, reproduced natively)" if (rc == 1 and viol) else
                       ("detected but not reproduced natively (exit 2)" if rc == 2 and caught_by else
                        ("MISSED" if rc == 0 else "not run")),
        },
    }
    json.dump(meta, open(os.path.join(d, "meta.json"), "w"), indent=1)
    rows.append("| %s | %s | %s | %s |" % (pid, meta["needs_to_manifest"], ", ".join(caught_by[:4]) or "-",
                                          meta["check_run"]["verdict"]))
print("| seed | needs, to manifest | failing harnesses | verdict of the property's quick check |")
print("|---|---|---|---|")
print("\n".join(rows))

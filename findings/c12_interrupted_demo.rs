// Demonstration for the C12 finding (public API only).  Run from a copy of /repo:
//   mkdir -p fast-tlsh/tests && cp c12_interrupted_demo.rs fast-tlsh/tests/ && \
//   cargo test --offline -p fast-tlsh --test c12_interrupted_demo
// Fails before the `fix:` commit (Err(IOError(Interrupted))), passes after it.
use std::io::{Error, ErrorKind, Read};

struct Flaky<'a> {
    data: &'a [u8],
    pos: usize,
    interrupt_next: bool,
}
impl Read for Flaky<'_> {
    fn read(&mut self, buf: &mut [u8]) -> std::io::Result<usize> {
        if self.interrupt_next {
            self.interrupt_next = false;
            return Err(Error::from(ErrorKind::Interrupted)); // transient: callers must retry
        }
        self.interrupt_next = true;
        let n = (self.data.len() - self.pos).min(buf.len()).min(7);
        buf[..n].copy_from_slice(&self.data[self.pos..self.pos + n]);
        self.pos += n;
        Ok(n)
    }
}

#[test]
fn interrupted_reads_are_retried() {
    let data: Vec<u8> = (0..4000u32).map(|i| (i * 7 + i / 13) as u8).collect();
    let expected = tlsh::hash_buf(&data).unwrap();
    let mut rd = Flaky { data: &data, pos: 0, interrupt_next: true };
    let got = tlsh::hash_stream(&mut rd).expect("a transient interruption must not fail the hash");
    assert_eq!(got, expected);
}

// Demonstration for the C17 finding (public API only).  Run from a copy of /repo:
//   mkdir -p fast-tlsh/tests && cp c17_lying_reader_demo.rs fast-tlsh/tests/ && \
//   cargo test --offline -p fast-tlsh --features unsafe --test c17_lying_reader_demo
// `Read` is a safe trait: an implementation that reports more bytes than the buffer holds is a
// contract violation, but it must at worst cause a clean panic.  Before the `fix:` commit, with
// feature `unsafe` the helper tells the optimiser `len <= buffer.len()` via
// `unreachable_unchecked()`: the debug build aborts the whole process ("unsafe precondition(s)
// violated: hint::unreachable_unchecked must never be reached", SIGABRT, not catchable), the
// release build has undefined behaviour (bounds check removed, out-of-bounds slice handed to the
// generator).  After the fix the slice bounds check panics cleanly in every configuration.
use std::io::Read;

struct Liar(bool);
impl Read for Liar {
    fn read(&mut self, buf: &mut [u8]) -> std::io::Result<usize> {
        if self.0 {
            return Ok(0);
        }
        self.0 = true;
        Ok(buf.len() + 4096) // lies
    }
}

#[test]
fn lying_reader_causes_a_clean_panic_only() {
    let r = std::panic::catch_unwind(|| {
        let mut rd = Liar(false);
        let _ = tlsh::hash_stream(&mut rd);
    });
    assert!(r.is_err(), "expected the slice bounds panic");
}

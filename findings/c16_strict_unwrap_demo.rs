// Demonstration for the C16 finding.  Run from a copy of /repo (the serde-tests member has the
// postcard dev-dependency):
//   cp c16_strict_unwrap_demo.rs fast-tlsh/serde-tests/tests/ && \
//   cargo test --offline -p fast-tlsh-serde-tests --features serde,strict-parser --test c16_strict_unwrap_demo
// Before the `fix:` commit the deserializer PANICS (unwrap on Err(LengthIsTooLarge)) on a compact
// document carrying an impossible length code; after it, it returns a deserialization error.
#![cfg(all(feature = "serde", feature = "strict-parser"))]

#[test]
fn invalid_length_code_is_an_error_not_a_panic() {
    // postcard byte string: varint length 35, then 35 bytes: checksum 0x00, length code 0xFF
    // (>= 170: impossible), Q ratios 0x00, 32 body bytes
    let mut doc = vec![35u8, 0x00, 0xFF, 0x00];
    doc.extend_from_slice(&[0u8; 32]);
    let r = std::panic::catch_unwind(|| postcard::from_bytes::<tlsh::Tlsh>(&doc));
    let r = r.expect("deserializing a malformed document must not panic");
    assert!(r.is_err());
}
